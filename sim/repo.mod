module github.com/dtn7/dtn7-go

require (
	github.com/BurntSushi/toml v0.3.1
	github.com/OneOfOne/xxhash v1.2.8 // indirect
	github.com/RyanCarrier/dijkstra v1.0.0
	github.com/dgraph-io/badger v1.6.2 // indirect
	github.com/dgraph-io/ristretto v0.0.3 // indirect
	github.com/dgryski/go-farm v0.0.0-20200201041132-a6ae2369ad13 // indirect
	github.com/dtn7/cboring v0.1.5
	github.com/dtn7/rf95modem-go v0.3.1
	github.com/fsnotify/fsnotify v1.4.9
	github.com/golang/protobuf v1.4.3 // indirect
	github.com/google/go-cmp v0.5.3 // indirect
	github.com/gorilla/mux v1.8.0
	github.com/gorilla/websocket v1.4.2
	github.com/hashicorp/errwrap v1.1.0 // indirect
	github.com/hashicorp/go-multierror v1.1.0
	github.com/howeyc/crc16 v0.0.0-20171223171357-2b2a61e366a6
	github.com/kr/text v0.2.0 // indirect
	github.com/niemeyer/pretty v0.0.0-20200227124842-a10e7caefd8e // indirect
	github.com/pkg/errors v0.9.1 // indirect
	github.com/schollz/peerdiscovery v1.6.1
	github.com/sirupsen/logrus v1.7.0
	github.com/timshannon/badgerhold v1.0.0
	github.com/ulikunitz/xz v0.5.8
	golang.org/x/sys v0.0.0-20201117222635-ba5294a509c7
	golang.org/x/xerrors v0.0.0-20200804184101-5ec99f83aff1 // indirect
	google.golang.org/protobuf v1.25.0 // indirect
	gopkg.in/check.v1 v1.0.0-20200902074654-038fdea0a05b // indirect
	gopkg.in/yaml.v3 v3.0.0-20200615113413-eeeca48fe776 // indirect
)

go 1.13

require verif.local/simk v0.0.0
require github.com/anishathalye/porcupine v1.3.0
replace verif.local/simk => /verif/sim/simk
