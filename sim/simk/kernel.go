// Package simk is the deterministic-simulation kernel shared by all harnesses:
// seeded PRNG streams, stable-key decisions, the parking scheduler, the run log,
// case/result types, delta-debugging and the worker loop.
//
// Nothing in here reads the real clock (except the worker's wall-time budget, which
// never influences a run) and nothing ranges over a Go map without sorting.
package simk

import (
	"crypto/sha256"
	"encoding/hex"
	"encoding/json"
	"fmt"
	"sort"
	"strings"
	"sync"
)

// ---------------------------------------------------------------- PRNG

// Rand is a SplitMix64 stream.
type Rand struct{ s uint64 }

func mix(z uint64) uint64 {
	z += 0x9e3779b97f4a7c15
	z = (z ^ (z >> 30)) * 0xbf58476d1ce4e5b9
	z = (z ^ (z >> 27)) * 0x94d049bb133111eb
	return z ^ (z >> 31)
}

// HashStr hashes strings into 64 bits (FNV-1a folded through mix).
func HashStr(parts ...string) uint64 {
	h := uint64(14695981039346656037)
	for _, p := range parts {
		for i := 0; i < len(p); i++ {
			h ^= uint64(p[i])
			h *= 1099511628211
		}
		h ^= 0xff
		h *= 1099511628211
	}
	return mix(h)
}

// NewRand derives the named sub-stream of a seed.
func NewRand(seed uint64, stream string) *Rand {
	return &Rand{s: mix(seed ^ HashStr(stream))}
}

func (r *Rand) Uint64() uint64 {
	r.s += 0x9e3779b97f4a7c15
	z := r.s
	z = (z ^ (z >> 30)) * 0xbf58476d1ce4e5b9
	z = (z ^ (z >> 27)) * 0x94d049bb133111eb
	return z ^ (z >> 31)
}

// Intn returns a value in [0,n).
func (r *Rand) Intn(n int) int {
	if n <= 0 {
		return 0
	}
	return int(r.Uint64() % uint64(n))
}

// Range returns a value in [lo,hi].
func (r *Rand) Range(lo, hi int) int {
	if hi <= lo {
		return lo
	}
	return lo + r.Intn(hi-lo+1)
}

func (r *Rand) Float() float64 { return float64(r.Uint64()>>11) / float64(1<<53) }

func (r *Rand) Bool(p float64) bool { return r.Float() < p }

// Pick returns one of the given ints.
func (r *Rand) Pick(xs ...int) int { return xs[r.Intn(len(xs))] }

// PickS returns one of the given strings.
func (r *Rand) PickS(xs ...string) string { return xs[r.Intn(len(xs))] }

// Perm returns a permutation of 0..n-1.
func (r *Rand) Perm(n int) []int {
	p := make([]int, n)
	for i := range p {
		p[i] = i
	}
	for i := n - 1; i > 0; i-- {
		j := r.Intn(i + 1)
		p[i], p[j] = p[j], p[i]
	}
	return p
}

// Decide is a decision that depends on run-time state: a hash of (seed, stable key), so
// that removing operations during minimisation does not shift other decisions.
func Decide(seed uint64, key ...string) uint64 { return mix(seed ^ HashStr(key...)) }

// DecideP returns true with probability p for the stable key.
func DecideP(seed uint64, p float64, key ...string) bool {
	return float64(Decide(seed, key...)>>11)/float64(1<<53) < p
}

// ---------------------------------------------------------------- scheduler

// Task is a goroutine of the system under test parked at a scheduling point.
type Task struct {
	Label string // lineage > point:key#occ
	Point string
	Key   string
	Data  interface{}
	ch    chan interface{}
	seq   int
}

// Sched owns every parked task. System goroutines call Park; only the driver calls
// Parked/Release.
type Sched struct {
	mu     sync.Mutex
	parked []*Task
	cause  string
	occ    map[string]int
	seq    int
	// Free makes Park return immediately (used while tearing a run down).
	free bool
	// Filter, if set, decides whether a point parks at all (swarm: subset of hooks per run).
	Filter func(point, key string) bool
}

func NewSched() *Sched { return &Sched{occ: map[string]int{}} }

// SetCause names the event that causes whatever parks next (an injected op or a released task).
func (s *Sched) SetCause(c string) {
	s.mu.Lock()
	s.cause = c
	s.mu.Unlock()
}

// SetFree switches parking off; parked tasks must be released by the caller.
func (s *Sched) SetFree(f bool) {
	s.mu.Lock()
	s.free = f
	s.mu.Unlock()
}

// Park blocks the calling goroutine until the driver releases it and returns the value
// passed to Release. It must be called with no lock held.
func (s *Sched) Park(point, key string, data interface{}) interface{} {
	s.mu.Lock()
	if s.free || (s.Filter != nil && !s.Filter(point, key)) {
		s.mu.Unlock()
		return nil
	}
	// the lineage of a long causal chain (thousands of wire messages, each caused by the previous one) is
	// folded: head, a hash of the whole, tail. Labels stay a pure function of the history, and their total
	// size stays linear in the number of steps instead of quadratic.
	cause := s.cause
	if len(cause) > 600 {
		cause = cause[:200] + "~" + fmt.Sprintf("%016x", HashStr(cause)) + "~" + cause[len(cause)-200:]
	}
	base := cause + ">" + point + ":" + key
	s.occ[base]++
	s.seq++
	t := &Task{Label: fmt.Sprintf("%s#%d", base, s.occ[base]), Point: point, Key: key, Data: data,
		ch: make(chan interface{}), seq: s.seq}
	s.parked = append(s.parked, t)
	s.mu.Unlock()
	return <-t.ch
}

// Parked returns the parked tasks sorted by label (arrival order only breaks exact ties,
// which are symmetric by construction).
func (s *Sched) Parked() []*Task {
	s.mu.Lock()
	defer s.mu.Unlock()
	out := append([]*Task(nil), s.parked...)
	sort.SliceStable(out, func(i, j int) bool {
		if out[i].Label != out[j].Label {
			return out[i].Label < out[j].Label
		}
		return out[i].seq < out[j].seq
	})
	return out
}

// Release lets t continue with value v; t's label becomes the cause of what parks next.
func (s *Sched) Release(t *Task, v interface{}) {
	s.mu.Lock()
	for i, p := range s.parked {
		if p == t {
			s.parked = append(s.parked[:i], s.parked[i+1:]...)
			break
		}
	}
	s.cause = t.Label
	s.mu.Unlock()
	t.ch <- v
}

// ---------------------------------------------------------------- log

// Log is the canonical event log of one run. Only the driver appends.
type Log struct {
	Lines []string
	Keep  bool
	h     [32]byte
	n     int
}

func (l *Log) Add(format string, a ...interface{}) {
	s := fmt.Sprintf(format, a...)
	l.n++
	hh := sha256.New()
	hh.Write(l.h[:])
	hh.Write([]byte(s))
	copy(l.h[:], hh.Sum(nil))
	if l.Keep || len(l.Lines) < 4000 {
		l.Lines = append(l.Lines, s)
	}
}

func (l *Log) Hash() string { return hex.EncodeToString(l.h[:8]) }
func (l *Log) Len() int     { return l.n }

// ---------------------------------------------------------------- cases and results

// Op is one self-contained scripted operation. Harnesses interpret the fields.
type Op struct {
	K string `json:"k"`
	P int    `json:"p,omitempty"`
	B int    `json:"b,omitempty"`
	N int64  `json:"n,omitempty"`
	M int64  `json:"m,omitempty"`
	S string `json:"s,omitempty"`
	X []int  `json:"x,omitempty"`
}

func (o Op) String() string {
	var sb strings.Builder
	sb.WriteString(o.K)
	if o.P != 0 {
		fmt.Fprintf(&sb, " p=%d", o.P)
	}
	if o.B != 0 {
		fmt.Fprintf(&sb, " b=%d", o.B)
	}
	if o.N != 0 {
		fmt.Fprintf(&sb, " n=%d", o.N)
	}
	if o.M != 0 {
		fmt.Fprintf(&sb, " m=%d", o.M)
	}
	if o.S != "" {
		fmt.Fprintf(&sb, " s=%s", o.S)
	}
	if len(o.X) != 0 {
		fmt.Fprintf(&sb, " x=%v", o.X)
	}
	return sb.String()
}

// Case is one complete run description: replaying it is a pure function of it and the code.
type Case struct {
	Harness string                 `json:"harness"`
	Seed    uint64                 `json:"seed"`
	Cfg     map[string]interface{} `json:"cfg"`
	Ops     []Op                   `json:"ops"`
}

func (c *Case) CfgInt(k string, def int) int {
	if v, ok := c.Cfg[k]; ok {
		switch x := v.(type) {
		case float64:
			return int(x)
		case int:
			return x
		case int64:
			return int(x)
		}
	}
	return def
}
func (c *Case) CfgF(k string, def float64) float64 {
	if v, ok := c.Cfg[k]; ok {
		switch x := v.(type) {
		case float64:
			return x
		case int:
			return float64(x)
		}
	}
	return def
}
func (c *Case) CfgS(k string, def string) string {
	if v, ok := c.Cfg[k]; ok {
		if s, ok := v.(string); ok {
			return s
		}
	}
	return def
}
func (c *Case) CfgB(k string) bool {
	if v, ok := c.Cfg[k]; ok {
		if b, ok := v.(bool); ok {
			return b
		}
	}
	return false
}

// Violation is one oracle failure. Sig is the class signature used for minimisation and
// for the known-findings protocol.
type Violation struct {
	Prop   string `json:"property"`
	Inv    string `json:"invariant"`
	Sig    string `json:"signature"`
	Detail string `json:"detail"`
}

// Result of one run.
type Result struct {
	Violations []Violation    `json:"violations,omitempty"`
	LogHash    string         `json:"log_hash"`
	Faults     map[string]int `json:"faults,omitempty"`
	Probes     map[string]int `json:"probes,omitempty"`
	SimMs      int64          `json:"sim_ms"`
	Steps      int            `json:"steps"`
	Nontrivial bool           `json:"nontrivial"`
	HarnessErr string         `json:"harness_error,omitempty"`
	Log        []string       `json:"log,omitempty"`
}

func (r *Result) Fault(k string) {
	if r.Faults == nil {
		r.Faults = map[string]int{}
	}
	r.Faults[k]++
}
func (r *Result) Probe(k string) {
	if r.Probes == nil {
		r.Probes = map[string]int{}
	}
	r.Probes[k]++
}
func (r *Result) Violate(prop, inv, sig, format string, a ...interface{}) {
	for _, v := range r.Violations {
		if v.Prop == prop && v.Sig == sig {
			return // one per class per run
		}
	}
	r.Violations = append(r.Violations, Violation{Prop: prop, Inv: inv, Sig: sig, Detail: fmt.Sprintf(format, a...)})
}

// HasSig reports whether the result contains a violation of (prop, sig).
func (r *Result) HasSig(prop, sig string) bool {
	for _, v := range r.Violations {
		if v.Prop == prop && v.Sig == sig {
			return true
		}
	}
	return false
}

// SortedKeys returns the keys of a string-keyed int map in order.
func SortedKeys(m map[string]int) []string {
	ks := make([]string, 0, len(m))
	for k := range m {
		ks = append(ks, k)
	}
	sort.Strings(ks)
	return ks
}

// Recode converts a generic value (struct or decoded JSON) into out via a JSON round trip, so
// that freshly generated and replayed cases are read the same way.
func Recode(in interface{}, out interface{}) {
	bs, err := json.Marshal(in)
	if err == nil {
		_ = json.Unmarshal(bs, out)
	}
}

// PanicSite extracts the innermost frame of the code under test from a stack trace.
func PanicSite(stack string) string {
	lines := strings.Split(stack, "\n")
	for i, l := range lines {
		if strings.HasPrefix(l, "github.com/dtn7/dtn7-go/") && i+1 < len(lines) && !strings.Contains(lines[i+1], "/zz_") {
			f := l
			if j := strings.LastIndex(f, "("); j > 0 {
				f = f[:j]
			}
			return strings.TrimPrefix(f, "github.com/dtn7/dtn7-go/pkg/")
		}
	}
	return "unknown"
}
