package simk

// Helpers for the C04 harnesses whose decoder takes one whole message (a datagram, a
// WebSocket message, an HTTP body, a string): guarded invocation and the fault families.

import (
	"bytes"
	"encoding/json"
	"fmt"
	"runtime"
	"sort"
	"strconv"
	"time"
)

// ProbeDecode runs decode(data) once: a panic is recovered and returned, the allocation is the
// growth of runtime.MemStats.TotalAlloc, and a decoder that has not returned after the real-time
// watchdog is reported as hung (the watchdog never influences a run that returns).
func ProbeDecode(decode func([]byte), data []byte) (alloc uint64, panicked string, hung bool) {
	var m0, m1 runtime.MemStats
	done := make(chan string, 1)
	runtime.ReadMemStats(&m0)
	go func() {
		defer func() {
			if r := recover(); r != nil {
				done <- fmt.Sprint(r)
				return
			}
			done <- ""
		}()
		decode(data)
	}()
	select {
	case panicked = <-done:
	case <-time.After(45 * time.Second):
		hung = true
	}
	runtime.ReadMemStats(&m1)
	return m1.TotalAlloc - m0.TotalAlloc, panicked, hung
}

// AllocLimit is the allocation a decoder may cause for a message of n bytes that actually
// arrived: a fixed 4 MiB (cboring caches declared strings up to 1 MiB; bufio, xz dictionaries
// and logging live below that) plus twice the bytes delivered.
func AllocLimit(n int) uint64 { return uint64(4<<20) + 2*uint64(n) }

// JudgeDecoder feeds every fault to decode and records the C04 violations for decoder `name`.
// It stops at the first violation of each kind. Returns the number of faults fed.
func JudgeDecoder(res *Result, name string, faults []DatagramFault, decode func([]byte)) int {
	panicSeen, allocSeen := map[string]bool{}, map[string]bool{}
	var maxAlloc uint64
	defer func() {
		if res.Probes == nil {
			res.Probes = map[string]int{}
		}
		// reach measure, merged by summation: KiB of the largest single decode of this run
		res.Probes["max_alloc_kib_"+name] += int(maxAlloc >> 10)
	}()
	for i, f := range faults {
		cls := ""
		if f.Class != "" {
			cls = "/" + f.Class
		}
		alloc, p, hung := ProbeDecode(decode, f.Data)
		if hung {
			// a loaded machine can make one decode slow: only a decode that is stuck twice counts
			if _, _, again := ProbeDecode(decode, f.Data); again {
				res.Violate("C04", "terminates", name+"-decoder-does-not-return"+cls, "%s: no result after 45 s (twice)", f.What)
				return i + 1
			}
			continue
		}
		if alloc > maxAlloc {
			maxAlloc = alloc
		}
		if p != "" && !panicSeen[cls] {
			panicSeen[cls] = true
			res.Violate("C04", "no-panic", name+"-decoder-panics"+cls, "%s: %s", f.What, p)
		}
		if limit := AllocLimit(len(f.Data)); alloc > limit && !allocSeen[cls] {
			if again, _, _ := ProbeDecode(decode, f.Data); again > limit {
				allocSeen[cls] = true
				res.Violate("C04", "bounded-allocation", name+"-decoder-allocates-from-declared-size"+cls, "%s: %d bytes allocated for a message of %d bytes", f.What, alloc, len(f.Data))
			}
		}
	}
	return len(faults)
}

// RawCuts is truncation at every offset of an arbitrary message.
func RawCuts(valid []byte) []DatagramFault {
	var out []DatagramFault
	for k := 0; k < len(valid); k++ {
		out = append(out, DatagramFault{What: fmt.Sprintf("cut after %d of %d bytes", k, len(valid)), Data: append([]byte(nil), valid[:k]...)})
	}
	return out
}

// TextFaults enumerates, for a textual message: truncation at every offset and every maximal
// run of decimal digits replaced by each boundary value (and by a 40-digit number).
func TextFaults(valid string) []DatagramFault {
	out := RawCuts([]byte(valid))
	for i := 0; i < len(valid); {
		if valid[i] < '0' || valid[i] > '9' {
			i++
			continue
		}
		j := i
		for j < len(valid) && valid[j] >= '0' && valid[j] <= '9' {
			j++
		}
		vals := make([]string, 0, len(BoundaryValues)+2)
		for _, v := range BoundaryValues {
			vals = append(vals, strconv.FormatUint(v, 10))
		}
		vals = append(vals, "9999999999999999999999999999999999999999", "-1")
		for _, v := range vals {
			out = append(out, DatagramFault{What: fmt.Sprintf("number %s at offset %d set to %s", valid[i:j], i, v), Data: []byte(valid[:i] + v + valid[j:])})
		}
		i = j
	}
	return out
}

// jsonAlternatives are the values every node of a JSON request is replaced with in turn:
// other types, boundary numbers, empty and nested containers.
var jsonAlternatives = []string{
	`null`, `true`, `0`, `-1`, `1`, `23`, `24`, `65536`, `2147483647`, `2147483648`, `4294967295`,
	`4611686018427387904`, `9223372036854775808`, `18446744073709551615`, `1e308`, `0.5`,
	`""`, `"x"`, `"dtn://x/"`, `"ipn:18446744073709551615.18446744073709551615"`, `"1h"`, `"-1s"`,
	`[]`, `[[]]`, `[null]`, `[1,2,3]`, `["a",1]`, `{}`, `{"a":1}`, `{"":{"":{"":[]}}}`,
}

// JSONFaults enumerates, for a well-formed JSON request: truncation at every offset and every
// node (object member value, array element, the root) replaced by each alternative value.
func JSONFaults(valid []byte) []DatagramFault {
	out := RawCuts(valid)
	var root interface{}
	if err := json.Unmarshal(valid, &root); err != nil {
		return out
	}
	var paths [][]interface{}
	var walk func(v interface{}, path []interface{})
	walk = func(v interface{}, path []interface{}) {
		paths = append(paths, append([]interface{}(nil), path...))
		switch x := v.(type) {
		case map[string]interface{}:
			keys := make([]string, 0, len(x))
			for k := range x {
				keys = append(keys, k)
			}
			sort.Strings(keys)
			for _, k := range keys {
				walk(x[k], append(path, k))
			}
		case []interface{}:
			for i := range x {
				walk(x[i], append(path, i))
			}
		}
	}
	walk(root, nil)
	for _, p := range paths {
		for _, alt := range jsonAlternatives {
			var fresh, altV interface{}
			_ = json.Unmarshal(valid, &fresh)
			dec := json.NewDecoder(bytes.NewReader([]byte(alt)))
			dec.UseNumber()
			_ = dec.Decode(&altV)
			mut := jsonSet(fresh, p, altV)
			bs, err := json.Marshal(mut)
			if err != nil {
				continue
			}
			out = append(out, DatagramFault{What: fmt.Sprintf("JSON node %v set to %s", p, alt), Data: bs})
		}
	}
	return out
}

func jsonSet(root interface{}, path []interface{}, v interface{}) interface{} {
	if len(path) == 0 {
		return v
	}
	switch x := root.(type) {
	case map[string]interface{}:
		k := path[0].(string)
		x[k] = jsonSet(x[k], path[1:], v)
		return x
	case []interface{}:
		i := path[0].(int)
		x[i] = jsonSet(x[i], path[1:], v)
		return x
	}
	return root
}
