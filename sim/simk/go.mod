module verif.local/simk

go 1.13
