package simk

// Independent helpers for oracles: a minimal CBOR item scanner that delimits an encoded bundle
// into blocks, and bitwise CRC-16/X-25 and CRC-32C (Castagnoli) written from their polynomials.
// Nothing here uses the codec under test.

import (
	"encoding/binary"
	"fmt"
)

// CborItemLen returns the length of the CBOR data item at the start of d, or -1.
func CborItemLen(d []byte) int { return cborItemLenDepth(d, 0) }

func cborItemLenDepth(d []byte, depth int) int {
	if len(d) == 0 || depth > 64 {
		return -1
	}
	mt := d[0] >> 5
	ai := d[0] & 0x1f
	hdr := 1
	var val uint64
	switch {
	case ai < 24:
		val = uint64(ai)
	case ai == 24:
		if len(d) < 2 {
			return -1
		}
		val, hdr = uint64(d[1]), 2
	case ai == 25:
		if len(d) < 3 {
			return -1
		}
		val, hdr = uint64(binary.BigEndian.Uint16(d[1:])), 3
	case ai == 26:
		if len(d) < 5 {
			return -1
		}
		val, hdr = uint64(binary.BigEndian.Uint32(d[1:])), 5
	case ai == 27:
		if len(d) < 9 {
			return -1
		}
		val, hdr = binary.BigEndian.Uint64(d[1:]), 9
	case ai == 31:
		if mt == 7 {
			return 1
		}
		if mt == 0 || mt == 1 || mt == 6 {
			return -1
		}
		n := 1
		for {
			if n >= len(d) {
				return -1
			}
			if d[n] == 0xff {
				return n + 1
			}
			l := cborItemLenDepth(d[n:], depth+1)
			if l < 0 {
				return -1
			}
			n += l
			if mt == 5 {
				l = cborItemLenDepth(d[n:], depth+1)
				if l < 0 {
					return -1
				}
				n += l
			}
		}
	default:
		return -1
	}
	switch mt {
	case 0, 1, 7:
		return hdr
	case 2, 3:
		if uint64(len(d)-hdr) < val {
			return -1
		}
		return hdr + int(val)
	case 4, 5:
		n := hdr
		cnt := val
		if mt == 5 {
			cnt *= 2
		}
		if cnt > uint64(len(d)) {
			return -1
		}
		for i := uint64(0); i < cnt; i++ {
			l := cborItemLenDepth(d[n:], depth+1)
			if l < 0 {
				return -1
			}
			n += l
		}
		return n
	case 6:
		l := cborItemLenDepth(d[hdr:], depth+1)
		if l < 0 {
			return -1
		}
		return hdr + l
	}
	return -1
}

// SplitBundleBlocks delimits an encoded bundle (indefinite array of definite arrays, break) into
// the raw bytes of its blocks; the primary block comes first.
func SplitBundleBlocks(wire []byte) ([][]byte, error) {
	if len(wire) < 2 || wire[0] != 0x9f {
		return nil, fmt.Errorf("no indefinite array")
	}
	var blocks [][]byte
	n := 1
	for {
		if n >= len(wire) {
			return nil, fmt.Errorf("missing break")
		}
		if wire[n] == 0xff {
			if n != len(wire)-1 {
				return nil, fmt.Errorf("bytes after the break")
			}
			return blocks, nil
		}
		if wire[n]>>5 != 4 || wire[n]&0x1f >= 24 {
			return nil, fmt.Errorf("block is not a short definite array")
		}
		l := CborItemLen(wire[n:])
		if l < 0 {
			return nil, fmt.Errorf("block not delimitable")
		}
		blocks = append(blocks, wire[n:n+l])
		n += l
	}
}

// CRC16X25: CRC-16/X-25 (poly 0x1021 reflected = 0x8408, init 0xffff, xorout 0xffff).
func CRC16X25(data []byte) uint16 {
	crc := uint16(0xffff)
	for _, b := range data {
		crc ^= uint16(b)
		for i := 0; i < 8; i++ {
			if crc&1 != 0 {
				crc = crc>>1 ^ 0x8408
			} else {
				crc >>= 1
			}
		}
	}
	return ^crc
}

// CRC32C: Castagnoli (poly 0x1EDC6F41 reflected = 0x82F63B78, init and xorout 0xffffffff).
func CRC32C(data []byte) uint32 {
	crc := uint32(0xffffffff)
	for _, b := range data {
		crc ^= uint32(b)
		for i := 0; i < 8; i++ {
			if crc&1 != 0 {
				crc = crc>>1 ^ 0x82F63B78
			} else {
				crc >>= 1
			}
		}
	}
	return ^crc
}

// BlockCRC inspects one raw block. declared: the CRC type field of the block (index 2 of a primary
// block, index 3 of a canonical block); ok: the transmitted value equals the CRC over the block
// with the CRC field zeroed. An error means that the block's structure does not allow the check.
func BlockCRC(raw []byte, primary bool) (declared uint64, ok bool, err error) {
	if len(raw) < 2 || raw[0]>>5 != 4 {
		return 0, false, fmt.Errorf("not an array")
	}
	count := int(raw[0] & 0x1f)
	// walk the items
	var items [][2]int
	n := 1
	for i := 0; i < count; i++ {
		l := CborItemLen(raw[n:])
		if l < 0 {
			return 0, false, fmt.Errorf("item %d not delimitable", i)
		}
		items = append(items, [2]int{n, n + l})
		n += l
	}
	if n != len(raw) {
		return 0, false, fmt.Errorf("trailing bytes in block")
	}
	ti := 3
	if primary {
		ti = 2
	}
	if len(items) <= ti {
		return 0, false, fmt.Errorf("too few items")
	}
	t := raw[items[ti][0]:items[ti][1]]
	if len(t) != 1 || t[0] > 23 {
		return 0, false, fmt.Errorf("crc type is not a small unsigned integer")
	}
	declared = uint64(t[0])
	if declared == 0 {
		return 0, true, nil
	}
	last := raw[items[len(items)-1][0]:items[len(items)-1][1]]
	want := 0
	switch declared {
	case 1:
		want = 2
	case 2:
		want = 4
	default:
		return declared, false, fmt.Errorf("unknown crc type %d", declared)
	}
	if len(last) != want+1 || last[0] != byte(0x40+want) {
		return declared, false, fmt.Errorf("crc field is not a %d-byte string", want)
	}
	zeroed := append([]byte(nil), raw...)
	for i := len(zeroed) - want; i < len(zeroed); i++ {
		zeroed[i] = 0
	}
	if declared == 1 {
		return declared, binary.BigEndian.Uint16(last[1:]) == CRC16X25(zeroed), nil
	}
	return declared, binary.BigEndian.Uint32(last[1:]) == CRC32C(zeroed), nil
}

// CborHeader locates one length/count-carrying item header inside an encoding.
type CborHeader struct {
	Pos   int  // offset of the initial byte
	Len   int  // length of the header (1, 2, 3, 5 or 9 bytes)
	Major byte // 2 byte string, 3 text string, 4 array, 5 map
	Value uint64
}

// CborHeaders lists, in order, every definite-length string/array/map header of the item(s) in d.
func CborHeaders(d []byte) []CborHeader {
	var out []CborHeader
	var walk func(off int, depth int) int
	walk = func(off, depth int) int {
		if off >= len(d) || depth > 64 {
			return -1
		}
		mt := d[off] >> 5
		ai := d[off] & 0x1f
		hdr := 1
		var val uint64
		switch {
		case ai < 24:
			val = uint64(ai)
		case ai == 24 && off+2 <= len(d):
			val, hdr = uint64(d[off+1]), 2
		case ai == 25 && off+3 <= len(d):
			val, hdr = uint64(binary.BigEndian.Uint16(d[off+1:])), 3
		case ai == 26 && off+5 <= len(d):
			val, hdr = uint64(binary.BigEndian.Uint32(d[off+1:])), 5
		case ai == 27 && off+9 <= len(d):
			val, hdr = binary.BigEndian.Uint64(d[off+1:]), 9
		case ai == 31:
			if mt == 7 {
				return off + 1
			}
			n := off + 1
			for n < len(d) && d[n] != 0xff {
				if n = walk(n, depth+1); n < 0 {
					return -1
				}
			}
			return n + 1
		default:
			return -1
		}
		switch mt {
		case 0, 1, 7:
			return off + hdr
		case 2, 3:
			out = append(out, CborHeader{off, hdr, mt, val})
			if uint64(len(d)-off-hdr) < val {
				return -1
			}
			return off + hdr + int(val)
		case 4, 5:
			out = append(out, CborHeader{off, hdr, mt, val})
			n := off + hdr
			cnt := val
			if mt == 5 {
				cnt *= 2
			}
			for i := uint64(0); i < cnt; i++ {
				if n = walk(n, depth+1); n < 0 {
					return -1
				}
			}
			return n
		case 6:
			return walk(off+hdr, depth+1)
		}
		return -1
	}
	for off := 0; off >= 0 && off < len(d); {
		off = walk(off, 0)
	}
	return out
}

// CborHead encodes an item header (shortest form).
func CborHead(major byte, v uint64) []byte {
	b := major << 5
	switch {
	case v < 24:
		return []byte{b | byte(v)}
	case v <= 0xff:
		return []byte{b | 24, byte(v)}
	case v <= 0xffff:
		return []byte{b | 25, byte(v >> 8), byte(v)}
	case v <= 0xffffffff:
		return []byte{b | 26, byte(v >> 24), byte(v >> 16), byte(v >> 8), byte(v)}
	}
	out := make([]byte, 9)
	out[0] = b | 27
	binary.BigEndian.PutUint64(out[1:], v)
	return out
}

// BoundaryValues are the length/count values of C04's quantifier.
var BoundaryValues = []uint64{0, 1, 23, 24, 1 << 16, 1<<31 - 1, 1 << 31, 1<<32 - 1, 1 << 62, 1 << 63, 1<<64 - 1}

// DatagramFault is one malformed variant of a well-formed CBOR datagram.
type DatagramFault struct {
	What string
	Data []byte
	// Class, if set, is appended to the signature of a violation this fault causes, so that a
	// recorded finding about one field does not cover other fields of the same decoder.
	Class string
}

// DatagramFaults enumerates, for a well-formed CBOR datagram: truncation at every offset, and
// every string/array/map header set to each boundary value (rest of the datagram unchanged, and
// again with the datagram ending right after the header).
func DatagramFaults(valid []byte) []DatagramFault {
	var out []DatagramFault
	for k := 0; k < len(valid); k++ {
		out = append(out, DatagramFault{What: fmt.Sprintf("cut after %d of %d bytes", k, len(valid)), Data: append([]byte(nil), valid[:k]...)})
	}
	for _, h := range CborHeaders(valid) {
		for _, v := range BoundaryValues {
			head := CborHead(h.Major, v)
			mut := append(append(append([]byte(nil), valid[:h.Pos]...), head...), valid[h.Pos+h.Len:]...)
			out = append(out, DatagramFault{What: fmt.Sprintf("header(major %d, value %d) at offset %d set to %d", h.Major, h.Value, h.Pos, v), Data: mut})
			out = append(out, DatagramFault{What: fmt.Sprintf("header(major %d, value %d) at offset %d set to %d, datagram ends there", h.Major, h.Value, h.Pos, v), Data: mut[:h.Pos+len(head)]})
		}
	}
	// arrays and maps that hold MORE well-formed elements than a decoder may expect: the last element (pair) is
	// repeated 1, 2 and 20 times and the count raised accordingly (everything stays well-formed CBOR)
	for _, h := range CborHeaders(valid) {
		if (h.Major != 4 && h.Major != 5) || h.Value == 0 || h.Value > 1000 {
			continue
		}
		per := 1
		if h.Major == 5 {
			per = 2
		}
		off := h.Pos + h.Len
		lastStart, ok := off, true
		for k := uint64(0); k < h.Value && ok; k++ {
			lastStart = off
			for q := 0; q < per; q++ {
				n := CborItemLen(valid[off:])
				if n <= 0 || off+n > len(valid) {
					ok = false
					break
				}
				off += n
			}
		}
		if !ok {
			continue
		}
		elem := valid[lastStart:off]
		for _, extra := range []int{1, 2, 20} {
			mut := append([]byte(nil), valid[:h.Pos]...)
			mut = append(mut, CborHead(h.Major, h.Value+uint64(extra))...)
			mut = append(mut, valid[h.Pos+h.Len:off]...)
			for k := 0; k < extra; k++ {
				mut = append(mut, elem...)
			}
			mut = append(mut, valid[off:]...)
			out = append(out, DatagramFault{What: fmt.Sprintf("container(major %d) at offset %d grown from %d to %d well-formed elements", h.Major, h.Pos, h.Value, h.Value+uint64(extra)), Data: mut})
		}
	}
	return out
}
