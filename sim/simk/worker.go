package simk

import (
	"encoding/json"
	"fmt"
	"io/ioutil"
	"os"
	"path/filepath"
	"regexp"
	"runtime"
	"runtime/pprof"
	"sort"
	"strconv"
	"strings"
	"time"
)

// Harness couples a case generator with a runner. Run must execute the case in a fresh
// simulation (its own bubble, its own scratch directory) and be a pure function of the case.
type Harness struct {
	Name string
	// Gen draws a case. focus is the property id the check is about (biases the script),
	// variant a harness-specific fixed choice per process (e.g. the routing algorithm).
	Gen func(seed uint64, tier, focus, variant string) *Case
	Run func(c *Case) *Result
}

// ReplayFile is what a violation is reported as.
type ReplayFile struct {
	Property  string         `json:"property"`
	Signature string         `json:"signature"`
	Invariant string         `json:"invariant"`
	Detail    string         `json:"detail"`
	Case      *Case          `json:"case"`
	OrigOps   int            `json:"original_ops"`
	Trace     []string       `json:"trace"`
	LogHash   string         `json:"log_hash"`
	GoVersion string         `json:"go_version"`
	Minimised bool           `json:"minimised"`
	Variant   string         `json:"variant"`
	Note      string         `json:"note,omitempty"`
	Faults    map[string]int `json:"faults,omitempty"`
}

type foundViolation struct {
	Property  string `json:"property"`
	Signature string `json:"signature"`
	Invariant string `json:"invariant"`
	Detail    string `json:"detail"`
	Seed      uint64 `json:"seed"`
	Replay    string `json:"replay"`
	Count     int    `json:"count"`
	Replayed  bool   `json:"replayed"`
	MinOps    int    `json:"min_ops"`
	OrigOps   int    `json:"orig_ops"`
}

// WorkerSummary is written by each worker process.
type WorkerSummary struct {
	Harness      string            `json:"harness"`
	Variant      string            `json:"variant"`
	Worker       int               `json:"worker"`
	Runs         int               `json:"runs"`
	StoppedEarly bool              `json:"stopped_early,omitempty"`
	Nontrivial   int               `json:"nontrivial_runs"`
	Hashes       []string          `json:"hashes"`
	Faults       map[string]int    `json:"faults"`
	Probes       map[string]int    `json:"probes"`
	SimMs        int64             `json:"sim_ms"`
	Steps        int64             `json:"steps"`
	Violations   []*foundViolation `json:"violations"`
	OtherProps   map[string]int    `json:"other_property_violations"`
	Errors       []string          `json:"errors"`
	Samples      []*Case           `json:"samples"`
	WallS        float64           `json:"wall_s"`
	FirstSeed    uint64            `json:"first_seed"`
	LastSeed     uint64            `json:"last_seed"`
}

func envInt(k string, def int) int {
	if v := os.Getenv(k); v != "" {
		if n, err := strconv.Atoi(v); err == nil {
			return n
		}
	}
	return def
}

// safeRun runs the harness and converts a panic of the harness itself into a harness error.
// crashMarker, if set, names the file that always holds the case being executed: if the process
// dies inside a run (a panic on a goroutine of the code under test), the parent finds it there.
var crashMarker, crashFocus, crashVariant string

func safeRun(h *Harness, c *Case) (res *Result) {
	if crashMarker != "" {
		if data, err := json.Marshal(&ReplayFile{Property: crashFocus, Signature: "process-crash", Case: c, OrigOps: len(c.Ops), Variant: crashVariant, GoVersion: runtime.Version()}); err == nil {
			_ = ioutil.WriteFile(crashMarker, data, 0644)
		}
	}
	defer func() {
		if r := recover(); r != nil {
			buf := make([]byte, 4096)
			n := runtime.Stack(buf, false)
			res = &Result{HarnessErr: fmt.Sprintf("harness panic: %v\n%s", r, buf[:n])}
		}
	}()
	return h.Run(c)
}

// Minimise shrinks c.Ops (ddmin, then single removals) while (prop,sig) persists.
func Minimise(h *Harness, c *Case, prop, sig string, maxRuns int, deadline time.Time) (*Case, int) {
	cur := *c
	cur.Ops = append([]Op(nil), c.Ops...)
	runs := 0
	test := func(ops []Op) bool {
		if runs >= maxRuns || time.Now().After(deadline) {
			return false
		}
		runs++
		cc := cur
		cc.Ops = ops
		r := safeRun(h, &cc)
		return r.HarnessErr == "" && r.HasSig(prop, sig)
	}
	n := 2
	for len(cur.Ops) >= 2 && runs < maxRuns && !time.Now().After(deadline) {
		chunk := (len(cur.Ops) + n - 1) / n
		reduced := false
		for start := 0; start < len(cur.Ops); start += chunk {
			end := start + chunk
			if end > len(cur.Ops) {
				end = len(cur.Ops)
			}
			cand := append(append([]Op(nil), cur.Ops[:start]...), cur.Ops[end:]...)
			if len(cand) > 0 && test(cand) {
				cur.Ops = cand
				if n > 2 {
					n--
				}
				reduced = true
				break
			}
		}
		if !reduced {
			if chunk <= 1 {
				break
			}
			n *= 2
			if n > len(cur.Ops) {
				n = len(cur.Ops)
			}
		}
	}
	return &cur, runs
}

// WorkerMain is the body of the single test function every harness package exposes.
// It returns an exit code: 0 fine, 2 harness trouble. Violations are data, not exit codes.
func WorkerMain(hs []*Harness) int {
	name := os.Getenv("VERIF_HARNESS")
	var h *Harness
	for _, x := range hs {
		if x.Name == name {
			h = x
		}
	}
	if h == nil {
		fmt.Fprintf(os.Stderr, "simk: unknown harness %q\n", name)
		return 2
	}
	mode := os.Getenv("VERIF_MODE")
	focus := os.Getenv("VERIF_FOCUS")
	variant := os.Getenv("VERIF_VARIANT")
	tier := os.Getenv("VERIF_TIER")
	if tier == "" {
		tier = "quick"
	}
	outDir := os.Getenv("VERIF_OUT")
	seedBase, _ := strconv.ParseUint(os.Getenv("VERIF_SEED"), 10, 64)
	worker := envInt("VERIF_WORKER", 0)

	switch mode {
	case "replay":
		// Re-run a replay file; print the result; exit status tells whether the signature reproduced.
		data, err := ioutil.ReadFile(os.Getenv("VERIF_REPLAY"))
		if err != nil {
			fmt.Fprintln(os.Stderr, err)
			return 2
		}
		var rf ReplayFile
		if err := json.Unmarshal(data, &rf); err != nil {
			fmt.Fprintln(os.Stderr, err)
			return 2
		}
		res := safeRun(h, rf.Case)
		out, _ := json.Marshal(map[string]interface{}{
			"reproduced": res.HasSig(rf.Property, rf.Signature), "log_hash": res.LogHash,
			"same_log": res.LogHash == rf.LogHash, "violations": res.Violations, "harness_error": res.HarnessErr})
		fmt.Println("REPLAY-RESULT " + string(out))
		if os.Getenv("VERIF_TRACE") != "" {
			for _, l := range res.Log {
				fmt.Println("  " + l)
			}
		}
		if res.HarnessErr != "" {
			return 2
		}
		return 0
	case "trace":
		// Determinism self-test: print the log hash of n consecutive seeds.
		n := envInt("VERIF_MAXRUNS", 20)
		for i := 0; i < n; i++ {
			seed := Decide(seedBase, "run", strconv.Itoa(worker), strconv.Itoa(i))
			if cs := os.Getenv("VERIF_CASE_SEED"); cs != "" {
				seed, _ = strconv.ParseUint(cs, 10, 64)
			}
			c := h.Gen(seed, tier, focus, variant)
			res := safeRun(h, c)
			sigs := []string{}
			for _, v := range res.Violations {
				sigs = append(sigs, v.Prop+"/"+v.Sig)
			}
			fmt.Printf("TRACE %d %d %s steps=%d viol=%v err=%q\n", i, seed, res.LogHash, res.Steps, sigs, firstLine(res.HarnessErr))
			if os.Getenv("VERIF_TRACE") != "" {
				for _, l := range res.Log {
					fmt.Println("  " + l)
				}
			}
		}
		if os.Getenv("VERIF_GDUMP") != "" {
			// leak hunting: what is still alive after n runs
			fmt.Printf("GOROUTINES %d\n", runtime.NumGoroutine())
			_ = pprof.Lookup("goroutine").WriteTo(os.Stdout, 1)
		}
		return 0
	}

	if outDir != "" {
		crashMarker, crashFocus, crashVariant = filepath.Join(outDir, fmt.Sprintf("current-%d.json", worker)), focus, variant
	}
	budget := time.Duration(envInt("VERIF_BUDGET_S", 30)) * time.Second
	var knownRe *regexp.Regexp
	if kr := os.Getenv("VERIF_KNOWN_RE"); kr != "" {
		knownRe, _ = regexp.Compile(kr)
	}
	maxRuns := envInt("VERIF_MAXRUNS", 1<<30)
	start := time.Now()
	sum := &WorkerSummary{Harness: h.Name, Variant: variant, Worker: worker, Faults: map[string]int{}, Probes: map[string]int{}, OtherProps: map[string]int{}}
	hashes := map[string]bool{}
	bySig := map[string]*foundViolation{}

	maxHeap := uint64(envInt("VERIF_MAX_HEAP_MB", 1536)) << 20
	for i := 0; i < maxRuns && time.Since(start) < budget; i++ {
		if i%64 == 63 {
			// goroutines that the code under test leaks (blocked for ever in a finished bubble) keep their memory:
			// a worker whose heap has grown large stops in good order and is replaced by a fresh process
			var ms runtime.MemStats
			runtime.ReadMemStats(&ms)
			if ms.HeapInuse > maxHeap {
				sum.StoppedEarly = true
				break
			}
		}
		seed := Decide(seedBase, "run", strconv.Itoa(worker), strconv.Itoa(i))
		if i == 0 {
			sum.FirstSeed = seed
		}
		sum.LastSeed = seed
		c := h.Gen(seed, tier, focus, variant)
		res := safeRun(h, c)
		sum.Runs++
		if res.HarnessErr != "" {
			if len(sum.Errors) < 5 {
				sum.Errors = append(sum.Errors, fmt.Sprintf("seed=%d: %s", seed, res.HarnessErr))
			} else {
				sum.Errors = append(sum.Errors[:5], "more")
			}
			continue
		}
		sum.SimMs += res.SimMs
		sum.Steps += int64(res.Steps)
		for k, v := range res.Faults {
			sum.Faults[k] += v
		}
		for k, v := range res.Probes {
			sum.Probes[k] += v
		}
		if res.Nontrivial {
			sum.Nontrivial++
			hashes[res.LogHash] = true
		}
		if len(sum.Samples) < 2 && res.Nontrivial {
			sum.Samples = append(sum.Samples, c)
		}
		for _, v := range res.Violations {
			if focus != "" && v.Prop != focus {
				sum.OtherProps[v.Prop+"/"+v.Sig]++
				continue
			}
			key := v.Prop + "/" + v.Sig
			if fv, ok := bySig[key]; ok {
				fv.Count++
				continue
			}
			fv := &foundViolation{Property: v.Prop, Signature: v.Sig, Invariant: v.Inv, Detail: v.Detail, Seed: seed, Count: 1, OrigOps: len(c.Ops)}
			bySig[key] = fv
			sum.Violations = append(sum.Violations, fv)
			// confirm, minimise, write replay, replay again
			confirm := safeRun(h, c)
			// a harness whose system under test breaks ties by Go's map order (DTLSR and its dijkstra library)
			// may need more than one attempt to take the same branch again
			for try := 1; try < envInt("VERIF_CONFIRM_TRIES", 1) && !confirm.HasSig(v.Prop, v.Sig); try++ {
				confirm = safeRun(h, c)
			}
			if !confirm.HasSig(v.Prop, v.Sig) {
				sum.Errors = append(sum.Errors, fmt.Sprintf("seed=%d: violation %s did not reproduce on immediate re-run (nondeterminism)", seed, key))
				continue
			}
			// a recorded finding (the orchestrator passes their signatures) is confirmed and replayable but
			// gets only a token minimisation: the budget belongs to exploration
			minRuns, minFor := 300, 90*time.Second
			if knownRe != nil && knownRe.MatchString(v.Sig) {
				minRuns, minFor = 40, 6*time.Second
			}
			minC, _ := Minimise(h, c, v.Prop, v.Sig, minRuns, time.Now().Add(minFor))
			keep := &Log{}
			_ = keep
			final := safeRun(h, minC)
			if !final.HasSig(v.Prop, v.Sig) {
				minC = c
				final = confirm
			}
			det := v.Detail
			for _, fvv := range final.Violations {
				if fvv.Prop == v.Prop && fvv.Sig == v.Sig {
					det = fvv.Detail
				}
			}
			fv.Detail = det
			fv.MinOps = len(minC.Ops)
			rf := &ReplayFile{Property: v.Prop, Signature: v.Sig, Invariant: v.Inv, Detail: det, Case: minC, OrigOps: len(c.Ops),
				Trace: final.Log, LogHash: final.LogHash, GoVersion: runtime.Version(), Minimised: len(minC.Ops) < len(c.Ops), Variant: variant, Faults: final.Faults}
			if outDir != "" {
				rdir := os.Getenv("VERIF_REPLAY_DIR")
				if rdir == "" {
					rdir = outDir
				}
				_ = os.MkdirAll(rdir, 0755)
				p := filepath.Join(rdir, fmt.Sprintf("%s-%s-%d-%s.json", v.Prop, h.Name, seed, sigHash(v.Sig)))
				data, _ := json.MarshalIndent(rf, "", " ")
				if err := ioutil.WriteFile(p, data, 0644); err == nil {
					fv.Replay = p
				}
			}
			again := safeRun(h, minC)
			fv.Replayed = again.HasSig(v.Prop, v.Sig) && again.LogHash == final.LogHash
		}
	}
	if outDir != "" {
		_ = os.Remove(filepath.Join(outDir, fmt.Sprintf("current-%d.json", worker)))
	}
	for k := range hashes {
		sum.Hashes = append(sum.Hashes, k)
	}
	sort.Strings(sum.Hashes)
	sum.WallS = time.Since(start).Seconds()
	if outDir != "" {
		data, _ := json.Marshal(sum)
		if err := ioutil.WriteFile(filepath.Join(outDir, fmt.Sprintf("worker-%s-%s-%d.json", h.Name, strings.Replace(variant, "/", "_", -1), worker)), data, 0644); err != nil {
			fmt.Fprintln(os.Stderr, err)
			return 2
		}
	} else {
		data, _ := json.MarshalIndent(sum, "", " ")
		fmt.Println(string(data))
	}
	if sum.StoppedEarly {
		return 3 // stopped in good order because of its heap: the orchestrator starts a replacement
	}
	return 0
}

func firstLine(s string) string {
	if i := strings.IndexByte(s, '\n'); i >= 0 {
		return s[:i]
	}
	return s
}

func sigHash(s string) string { return fmt.Sprintf("%08x", uint32(HashStr(s))) }
