#!/usr/bin/env python3
"""Write the -overlay JSON that places /verif/harness/<pkg>/*.go into /repo/pkg/<pkg>/ as zz_*_test.go."""
import json, os, sys
VERIF = os.path.dirname(os.path.dirname(os.path.abspath(__file__)))
REPO = os.environ.get("VERIF_REPO", "/repo")
def main(out):
    rep = {}
    hroot = os.path.join(VERIF, "harness")
    for root, dirs, files in os.walk(hroot):
        rel = os.path.relpath(root, hroot)
        for f in sorted(files):
            if f.endswith(".go"):
                rep[os.path.join(REPO, "pkg", rel, "zz_" + f)] = os.path.join(root, f)
    with open(out, "w") as fh:
        json.dump({"Replace": rep}, fh, indent=1)
if __name__ == "__main__":
    main(sys.argv[1])
