#!/usr/bin/env python3
"""Regenerate /verif/MANIFEST.json from bin/props.py (checks) and the fixed not-applicable list."""
import json, os, subprocess, sys
VERIF = os.path.dirname(os.path.dirname(os.path.abspath(__file__)))
sys.path.insert(0, os.path.join(VERIF, "bin"))
from props import PROPS, MANIFEST_TEXT, NOT_APPLICABLE

hooks = subprocess.run(["git", "-C", "/repo", "log", "--format=%h %s"], stdout=subprocess.PIPE, text=True).stdout.splitlines()
hook_commits = [l.split()[0] for l in hooks if l.split(" ", 1)[1].startswith("verif:")]
m = {
 "version": 1,
 "setup_cmd": "bin/setup",
 "hooks": {
  "guard": "verif",
  "enable": "go build tag: bin/build.sh compiles /repo's working tree with `go1.26.8 test -c -tags verif -modfile=/verif/sim/repo.mod -overlay=<harness files as in-package _test.go>`",
  "baseline_off_cmd": "cd /repo && GOFLAGS=-mod=mod go test -json -vet=off -count=1 -timeout 25m ./...",
  "source_commits": list(reversed(hook_commits)),
  "add_only": True,
 },
 "engines": [{"name": "simk", "path": "/verif/sim/simk", "serves_properties": sorted(PROPS.keys()),
              "kind_free_text": "deterministic-simulation kernel: SplitMix64 seed streams, stable-key decisions, parking scheduler (tasks parked at build-tag hooks and in scripted peers, released one at a time), canonical event log, ddmin minimiser, worker loop; runs inside testing/synctest bubbles (fake clock, quiescence detection)"}],
 "checks": [],
 "not_applicable": NOT_APPLICABLE,
 "notes": "bin/check <id> quick|thorough; VERIF_SEED selects the seed; replay: bin/check <id> --replay <file>. Known findings: known_findings.json. Design: DESIGN.md.",
}
for pid in sorted(PROPS):
    P = PROPS[pid]; T = MANIFEST_TEXT[pid]
    m["checks"].append({
        "property_id": pid,
        "quick_cmd": "bin/check %s quick" % pid,
        "thorough_cmd": "bin/check %s thorough" % pid,
        "evidence_file": "evidence/%s.json" % pid,
        "replay_cmd_template": "bin/check %s --replay {path}" % pid,
        "engine": "simk",
        "level_claimed": {"category": P["level"], "text": T["text"], "design_ref": T["design_ref"]},
        "level_note": T["note"],
        "technique": T["technique"],
    })
json.dump(m, open(os.path.join(VERIF, "MANIFEST.json"), "w"), indent=1)
print("MANIFEST.json: %d checks, %d not applicable" % (len(m["checks"]), len(NOT_APPLICABLE)))
