#!/bin/bash
# build.sh <pkg-relative-path> <out-binary> [extra go flags]: compile /repo's working tree + harness overlay, hooks on.
set -e
export GOFLAGS=-mod=mod GOPROXY=off GOSUMDB=off GOTOOLCHAIN=local
VERIF="$(cd "$(dirname "$0")/.." && pwd)"
REPO="${VERIF_REPO:-/repo}"
mkdir -p "$VERIF/build"
python3 "$VERIF/bin/mkoverlay.py" "$VERIF/build/overlay.json"
pkg="$1"; out="$(realpath -m "$2")"; shift 2
cd "$REPO"
exec go1.26.8 test -c -o "$out" -modfile="$VERIF/sim/repo.mod" -overlay="$VERIF/build/overlay.json" -tags verif -vet=off "$@" "./$pkg"
