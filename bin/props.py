"""Per-property check configuration (read by bin/check)."""

ALGOS = ["epidemic", "spray", "binary_spray", "prophet", "dtlsr", "sensor-mule"]

NODE_REAL = [
    "routing.Core (processing pipeline, cron, IdKeeper, AgentManager)", "all routing algorithms of the variant list",
    "storage.Store on badgerhold/badger, real files under /dev/shm", "cla.Manager and its adapter life cycle",
    "agent.MuxAgent", "bpv7 builder, codec, validation",
]
NODE_STUB = [
    "convergence layers: scripted peers at the cla.ConvergenceSender/Receiver interfaces (Send serialises like a real CLA, then parks)",
    "application agents: recording mock agents (real MuxAgent in between)",
    "sockets, discovery multicast, rf95 modem: absent",
    "disk below the file API: no torn/short/lost writes, no ENOSPC (process-kill crash model only)",
]
COMMON_ASSUME = [
    "Go 1.26.8 runtime with GODEBUG asynctimerchan=0 inside testing/synctest bubbles; module language version stays go 1.13",
    "one bubble = one fake clock: no backward clock jumps, peer clock skew only as offsets in timestamps peers send",
    "goroutine order between two quiescent points is the Go runtime's; conflicting tasks are parked at hooks/Send and released one at a time in an order derived from the seed (determinism self-test: bin/selftest-determinism)",
    "sampling, not proof: a clean batch is evidence for the explored seeds only",
]

NODE_RULE = ("one evaluation = one seeded run: (config, bundle specs, op script) drawn from VERIF_SEED; ops over {submit, submit via agent, "
             "deliver from peer, peer_up, peer_down, advance, restart}; send outcomes and the order in which parked tasks are released are "
             "hashes of (seed, stable key). A run is non-trivial when at least one Send was invoked on a scripted peer and at least one fault "
             "fired or the scheduler chose among several parked tasks; distinct = distinct hash of the canonical event log of the run.")


def node(focus, budget_q=60, budget_t=700, variants=None, extra_assume=None, required=None, level="exploration"):
    return {
        "pkg": "pkg/routing", "binary": "routing.test", "harness": "node", "focus": focus,
        "variants": variants or ALGOS, "budget": {"quick": budget_q, "thorough": budget_t},
        "level": level, "rule": NODE_RULE, "real": NODE_REAL, "stub": NODE_STUB,
        "assumptions": COMMON_ASSUME + (extra_assume or []),
        "required_probes": required or ["send_ok"],
    }


CLA_RULE = ("one evaluation = one seeded trace over {register, register same address again, unregister, restart, peer-disappeared, retry tick(s), close} "
            "for 1..3 adapters (permanent/non-permanent, sender/receiver, start outcomes ok/retry/final drawn per call from the seed) and retry budget 0..3, "
            "replayed against the real cla.Manager under the fake clock and compared step by step with a reference state machine; non-trivial = at least one "
            "failed start or peer loss happened; distinct = distinct canonical log (listing + per-adapter Start/Close history after every step).")

STORE_RULE = ("one evaluation = one seeded operation sequence over {push bundle, push fragment (grid-aligned and odd ranges: exact covers, overlaps, containment, duplicates), push the whole bundle for a bundle otherwise pushed in fragments, "
              "two concurrent fragment pushes released in a seeded order at the store's write hooks, update pending/property/expiry, a metadata update through an item fetched before the record was deleted / swept, delete, expiry sweep, advance, close+reopen}, "
              "with a crash armed at the 1st..3rd instrumented point inside 30% of the pushes/deletes (half of them: the directory is copied while the operation is parked there and a store - in a third of the runs a whole "
              "node - is opened on the copy, then the operation completes; the other half: the operation is aborted at that point for good, the store is closed and reopened on the surviving directory and the run goes on); compared with an in-memory reference map after every operation. Non-trivial = a crash point, an interleaving "
              "or a reopen happened; distinct = distinct canonical log.")

TCPCL_RULE = ("one evaluation = one seeded run: 1..8 bundles (1..4 each way when bidirectional) of seeded encoded length L sent concurrently through real TransferManagers over a simulated "
              "message wire whose two forwarding tasks park before every message; segment size m biased to {1, 2, divisors of L, L-1..L+2, 1 MiB}; one fault scenario per run out of "
              "{none, scripted peer stops acknowledging / refuses (each code) after k segments, wire closes or black-holes after message k in either direction}; the scheduler picks the "
              "direction that proceeds from the seed. Non-trivial = every run (at least one transfer); distinct = distinct canonical log.")

SESSION_RULE = (" Session level (half of the workers): two real Clients (contact header, SESS_INIT, established stage with keep-alives, message switch over bytes, TransferManager) on a simulated duplex byte stream "
                "with seeded chunking (1..65536 bytes per write); one evaluation = 3..14 operations out of {send one bundle either way (0 B .. 70 kB, 6%: around and above the 1 MiB segment MRU), idle for 1 s .. 400 s, "
                "connection reset after k more bytes in one direction + send + restart, one direction silently swallowing bytes after k more bytes + send + restart, Close on either side + restart}; one transfer in flight at a time.")

C12_RULE = ("two harnesses. MTCP: one evaluation = a seeded sequence of 1..20 sends (payload 1..2000 bytes) interleaved with advances across the 5 s keep-alive ticks on one simulated TCP-like "
            "stream with seeded chunk sizes (1..4096 bytes per read) and a cut (reset) at a seeded byte offset in 45% of the runs or, in 25%, a clean close by the server between two operations (like TCP, the first write after it still succeeds locally, later ones fail); in 30% a slow consumer above the server while a burst of 2..12 bundles arrives back to back (what piles up must come out in wire order; the window is the harness', the order of goroutines inside it the Go scheduler's, so such a violation is confirmed by repeated fresh-process runs). BBC: one evaluation = one bundle x modem MTU (3..255) x transmission id: "
            "the clean fragment train is judged, then EVERY single drop, duplication and adjacent swap of the train is applied in turn (enumerated), then 2..6 seeded multi-fault patterns (<16 losses "
            "in a row) and two interleaved incoming transmissions. Non-trivial = at least one send (MTCP) / a train of >= 2 fragments (BBC); distinct = distinct canonical log.")

LOCAL_RULE = ("one evaluation = one seeded history over {register/unregister a mock agent (1..2 endpoints out of 3, overlapping), REST client register/unregister/fetch through the agent's router, "
              "deliver a bundle from a peer or submit it locally for one of the endpoints or for an endpoint nobody listens on, ping, a delivery running concurrently with a fetch of one mailbox "
              "(interleaved at the REST mailbox hooks in a seeded order), WebSocket client connect+register / disconnect, advance}; 0..4 mock agents, 0..4 REST clients, 0..3 WebSocket clients, 0..2 connected peers. Non-trivial = at least one delivery; distinct = distinct canonical log.")

MUX_RULE = (" Second harness (a quarter of the workers): the real MuxAgent with 2..5 recording agents on 1..2 endpoints; history over {deliver, register, unregister, "
            "deliver while one child is held before taking the message and another child unregisters / a new one registers during the blocked fan-out}.")

C03_RULE = ("one evaluation = one seeded fully CRC-protected bundle (CRC-16/32 chosen per block incl. the primary block, dtn/ipn endpoints, optional hop-count / age / previous-node / unknown blocks, "
            "fragment or not, payload 0..300 bytes, up to 2 KiB in the thorough tier) sent by the real serialiser over a simulated MTCP stream into the real server connection handler; EVERY single bit "
            "of its encoding is flipped in turn (exhaustive per bundle: scheduler_steps counts the flips) plus 200 seeded bursts of <=16/<=32 bits inside one block. Non-trivial = every run; distinct = distinct canonical log.")
C04_RULE = ("seven harnesses; one evaluation = one seeded well-formed message (stream) from a simulated peer or client, then the enumerated faults on it. STREAMS - (a) MTCP frames (1..2 bundles and a keep-alive) "
            "into the real server connection handler, (b) TCPCLv4 contact header + messages (SESS_INIT, XFER_SEGMENT/ACK x1..3, KEEPALIVE, XFER_REFUSE, SESS_TERM) into the real message switch. Per stream: cut at EVERY "
            "byte offset; stall (stream stays open) after every length/count field; every length/count field (MTCP prefix, every CBOR string/array/map header of the bundle, the TCPCL u16/u32/u64 length fields) set to each of "
            "0,1,23,24,2^16,2^31-1,2^31,2^32-1,2^62,2^63,2^64-1 (clamped to the field width), followed by the rest of the stream and EOF, and again followed by a stall; (c) 30% of the TCPCL runs: a TransferManager "
            "sends a bundle with each boundary value as the peer-declared segment MRU. WHOLE MESSAGES - cut at every offset, every CBOR length/count header set to each boundary value (rest kept, and again ending "
            "right there): (d) discovery announcement datagrams, (e) bpv7: administrative records, the type-specific data of each of the 8 extension blocks inside a canonical block, a bundle carrying a status "
            "report, endpoint-ID strings (every digit run -> boundary values, degenerate shapes, a 64 KiB authority), (f) WebSocket-agent messages of all 5 types (+ type code values), (g) REST /build /register "
            "/unregister /fetch bodies through the real RestAgent + router: cut at every offset, every JSON node -> 30 alternatives (other types, boundary numbers, nested containers), every unused builder method "
            "with each alternative, (h) BBC: each fragment of a train cut at every offset / identifier byte -> 8 flag combinations x 4 sequence numbers, the bundle's CBOR faults compressed and fragmented, the xz stream cut at every offset and "
            "its declared dictionary size -> every value up to 64 MiB. Non-trivial = every run; distinct = distinct canonical log.")

PROPS = {
    "C03": {"pkg": "pkg/cla/mtcp", "binary": "mtcp.test", "harness": "crc", "focus": "C03", "variants": [""],
            "budget": {"quick": 30, "thorough": 400}, "level": "fault_enumeration", "rule": C03_RULE,
            "real": ["bpv7 serialiser and parser (primary / canonical block CRC computation and check)", "mtcp.MTCPServer.handleSender (framing, bundle decode, hand-up)", "cboring"],
            "stub": ["the link: simulated TCP-like stream that flips the chosen bits after the MTCP length prefix", "CRC oracle: independent bitwise CRC-16/X-25 and CRC-32C over independently delimited block bytes (simk.BlockCRC)"],
            "assumptions": COMMON_ASSUME + ["bursts are confined to one block and to the width of that block's CRC; multi-bit patterns that move block boundaries are out of scope (as in the statement)",
                                            "single-bit flips are exhaustive per generated bundle, bundles themselves are sampled"],
            "required_probes": ["bit_flip", "burst"]},
    "C04": {"parts": [
                {"pkg": "pkg/cla/bbc", "binary": "bbc.test", "harness": "dec-bbc", "variants": [""]},
                {"pkg": "pkg/cla/mtcp", "binary": "mtcp.test", "harness": "dec-mtcp", "variants": [""]},
                {"pkg": "pkg/cla/tcpclv4/internal/utils", "binary": "tcpcl.test", "harness": "dec-tcpcl", "variants": [""]},
                {"pkg": "pkg/bpv7", "binary": "bpv7.test", "harness": "dec-bpv7", "variants": [""]},
                {"pkg": "pkg/agent", "binary": "agent.test", "harness": "dec-rest", "variants": [""]},
                {"pkg": "pkg/agent", "binary": "agent.test", "harness": "dec-wam", "variants": [""]},
                {"pkg": "pkg/discovery", "binary": "disc.test", "harness": "dec-disc", "variants": [""]}],
            "focus": "C04", "budget": {"quick": 45, "thorough": 400}, "level": "fault_enumeration", "rule": C04_RULE, "mem_limit_gb": 8, "hang_is_violation": True,
            "real": ["mtcp.MTCPServer.handleSender and the bpv7/cboring bundle decoder behind it", "tcpclv4 utils.MessageSwitchReaderWriter + msgs.ReadMessage and all message Unmarshal functions (incl. the contact header)",
                     "tcpclv4 utils.TransferManager.Send / OutgoingTransfer.NextSegment with peer-declared segment sizes", "discovery.UnmarshalAnnouncements",
                     "bpv7: NewAdministrativeRecordFromCbor / StatusReport, CanonicalBlock + ExtensionBlockManager.ReadBlock for payload, previous node, bundle age, hop count, binary spray, DTLSR, PRoPHET and signature blocks, ParseBundle, NewEndpointID",
                     "agent.unmarshalCbor and all WebSocket-agent message types; agent.RestAgent handlers behind gorilla/mux incl. bpv7.BuildFromMap",
                     "bbc.ParseFragment, Connector.handleIncomingFragment, IncomingTransmission, xz decompression (github.com/ulikunitz/xz) and the bundle decoder behind it"],
            "stub": ["peers, clients and sockets: simulated streams (durably blocking readers fed by the harness) or whole messages handed to the handler; HTTP through httptest recorders; the WebSocket framing (gorilla/websocket) is not driven",
                     "NOT covered: TCPCL stage machines above the message switch, coverage-guided mutation of arbitrary byte strings (faults are structured: cuts, stalls, length/count fields, JSON node types)"],
            "assumptions": COMMON_ASSUME + ["allocation is measured with runtime.MemStats.TotalAlloc (process-wide): the bound is 4 MiB + 2 x bytes delivered and an excess must be measured twice; declared sizes up to 2^16 are below that resolution",
                                            "worker processes run under RLIMIT_AS = 8 GiB so that a successful giant allocation cannot take the machine down; a dying worker is reported as a process-crash violation",
                                            "'never loops for ever': for whole-message decoders a 45 s real-time watchdog per decode that must fire twice on the same input; for stream decoders (a spinning task never lets the bubble become quiescent) the worker is killed 150 s after its budget and its last case is re-run alone twice with a 120 s limit - only then is it a never-returns violation (never fires on the unchanged tree; it does not influence a run that returns)",
                                            "the xz dictionary-size field is only driven up to 64 MiB (of 4 GiB): the recorded finding makes larger values kill the worker"],
            "required_probes": ["stream_cut", "stream_stall", "field_corrupt", "hostile_segment_mru", "datagram_cut", "kind_eid", "kind_admin", "kind_block", "kind_bundle", "family_frag", "family_cbor", "family_xz", "rest/build", "wam_type_2"]},
    "C07": {"parts": [
                {"pkg": "pkg/routing", "binary": "routing.test", "harness": "local", "variants": [""]},
                {"pkg": "pkg/routing", "binary": "routing.test", "harness": "local", "variants": [""]},
                {"pkg": "pkg/routing", "binary": "routing.test", "harness": "local", "variants": [""]},
                {"pkg": "pkg/agent", "binary": "agent.test", "harness": "mux", "variants": [""]}],
            "focus": "C07", "budget": {"quick": 60, "thorough": 600}, "level": "exploration", "rule": LOCAL_RULE + MUX_RULE,
            "real": ["routing.Core local delivery path, AgentManager", "agent.MuxAgent (also on its own, with held children, for registration changes during a fan-out)", "agent.RestAgent behind its gorilla/mux router (recorder requests)", "agent.WebSocketAgent (upgrade handler, per-client goroutines, inner MuxAgent) and agent.WebSocketAgentConnector as its client", "agent.PingAgent", "storage.Store"],
            "stub": ["application agents other than REST/ping: recording mock agents", "HTTP transport: httptest recorder, no sockets", "WebSocket transport: net.Pipe between the real WebSocketAgentConnector and the real WebSocketAgent.ServeHTTP (minimal hijackable ResponseWriter), no sockets, no http.Server", "convergence layers: scripted peers"],
            "assumptions": COMMON_ASSUME + ["sync.Map order inside RestAgent is not owned; the oracle demands delivery to all registered clients, which does not depend on it", "REST client uuids (crypto/rand) are canonicalised to client indices before they reach the scheduler or the log"],
            "required_probes": ["rmw_interleave", "local_bundle_without_recipient", "delivered_report_seen", "ws_client_received", "unregister_during_fanout", "register_during_fanout"]},
    "C12": {"parts": [
                {"pkg": "pkg/cla/mtcp", "binary": "mtcp.test", "harness": "mtcp", "variants": [""], "burst": True},
                {"pkg": "pkg/cla/bbc", "binary": "bbc.test", "harness": "bbc", "variants": [""]}],
            "focus": "C12", "budget": {"quick": 45, "thorough": 450}, "level": "exploration", "rule": C12_RULE,
            "real": ["mtcp.MTCPClient (Send, keep-alive handler, failure reporting)", "mtcp.MTCPServer.handleSender", "bbc.Connector (Send, handlerRead, handlerWrite, handleIncomingFragment)",
                     "bbc Outgoing/IncomingTransmission, Fragment, xz compression", "bpv7 codec"],
            "stub": ["TCP sockets -> simConn (in-memory TCP-like stream: seeded chunking, cut at a byte offset, writes fail after the cut)", "LoRa modem (rf95) -> simulated broadcast medium that applies the fault pattern to a fragment train",
                     "MTCP dial/listen/accept: the client is constructed in-package on the simulated connection"],
            "assumptions": COMMON_ASSUME + ["BBC: the medium collects a sender's whole train before delivering it (the sender never sees a failure fragment while it is still sending)",
                                            "MTCP: a write on a broken connection fails immediately (no kernel send buffer that accepts one more write)"],
            "required_probes": ["send_after_cut", "clean_connection", "frag_drop", "frag_dup", "frag_swap", "interleaved_transmissions"]},
    "C11": {"parts": [
                {"pkg": "pkg/cla/tcpclv4/internal/utils", "binary": "tcpcl.test", "harness": "tcpcl", "variants": [""]},
                {"pkg": "pkg/cla/tcpclv4", "binary": "tcpcl-session.test", "harness": "tcpcl-session", "variants": [""]}],
            "focus": "C11", "budget": {"quick": 45, "thorough": 450}, "level": "exploration", "rule": TCPCL_RULE + SESSION_RULE,
            "real": ["utils.TransferManager (Send, handle)", "utils.OutgoingTransfer / IncomingTransfer", "msgs.DataTransmissionMessage / DataAcknowledgementMessage / TransferRefusalMessage values", "bpv7 codec",
                     "session level: tcpclv4.Client (Start, handle, Send, Close, restart of the active side), stages.StageHandler with Contact / SessInit / SessEstablished stages, utils.KeepaliveTicker, utils.MessageSwitchReaderWriter and all message codecs on the byte stream"],
            "stub": ["message level: messages travel as values over simulated FIFO channels (no byte stream, no stages)", "session level: TCP socket -> simulated duplex byte stream (chunking, reset, one-way blackhole); the listener's accept loop is replaced by creating the passive Client on the stream's other end (as newClientTCP does)", "TCP / WebSocket sockets"],
            "assumptions": COMMON_ASSUME + ["the wire buffers without bound behind the schedule point (like socket buffers), channels towards the managers hold 32 messages like the real message switch"],
            "required_probes": ["send_success", "send_error", "m_divides_L", "wire_close", "session_established", "send_ok", "stream_cut", "stream_stall", "idle_keepalive_periods", "restart_after_loss"]},
    "C08": {"pkg": "pkg/routing", "binary": "routing.test", "harness": "store", "focus": "C08", "variants": [""],
            "budget": {"quick": 60, "thorough": 600}, "level": "exploration", "rule": STORE_RULE,
            "real": ["storage.Store on badgerhold/badger with real files under /dev/shm", "storage.BundleItem/BundlePart (part files, Load, IsComplete)", "bpv7 reassembly as used by the store", "routing.Core started on the post-crash directory"],
            "stub": ["OS crash: directory copied while the operation is parked at a hook (process-kill model: every completed write survives)", "disk faults below the file API: not injected"],
            "assumptions": COMMON_ASSUME + ["part files are referenced by absolute path in the index; the post-crash store reads them from the live directory at the instant of the crash (unchanged while the operation is parked)"],
            "required_probes": ["crash_point", "crash_in_place", "reopen", "rmw_interleave", "complete_record_loaded", "update_of_deleted_record"]},
    "C16": {"pkg": "pkg/cla", "binary": "cla.test", "harness": "cla", "focus": "C16", "variants": [""],
            "budget": {"quick": 40, "thorough": 450}, "level": "exploration", "rule": CLA_RULE,
            "real": ["cla.Manager (handler goroutine, retry ticker, registration table)", "convergenceElem activate/deactivate/handler"],
            "stub": ["convergence adapters: scripted Start/Close/Channel (that is the seam the property is about)"],
            "assumptions": COMMON_ASSUME + ["the order in which several waiting adapters are started on one retry tick (sync.Map order) is not owned; adapters are independent and the log is per adapter"],
            "required_probes": ["start_fail_retry", "retry_tick_started_adapter"]},
    "C05": node("C05", required=["send_ok", "retention_checked"]),
    "C06": node("C06", required=["send_ok", "copy_checked", "age_checked"]),
    "C13": node("C13", required=["send_ok"], variants=["epidemic", "spray", "binary_spray", "prophet", "dtlsr", "sensor-mule"]),
    "C14": dict(node("C14", required=["send_ok", "same_ms_submission", "concurrent_submission_burst"]),
                parts=[{"pkg": "pkg/routing", "binary": "routing.test", "harness": "node", "variants": ALGOS},
                       {"pkg": "pkg/routing", "binary": "routing.test", "harness": "idburst", "variants": [""], "burst": True, "env": {"GOMAXPROCS": "8"}}]),
    "C15": node("C15", required=["send_ok", "status_report_judged"]),
    "C19": dict(node("C19", variants=["prophet"], required=["send_ok", "prophet_emission_judged", "prophet_vector_imported", "prophet_ageing_tick", "prophet_forwarding_judged", "race_window"]),
                parts=[{"pkg": "pkg/routing", "binary": "routing.test", "harness": "node", "variants": ["prophet"] * 3},
                       {"pkg": "pkg/routing", "binary": "routing-race.test", "harness": "node", "variants": ["prophet"], "race": True,
                        "env": {"VERIF_RACE": "1", "GORACE": "halt_on_error=1"}, "race_filter": "Prophet|prophet"}]),
    "C20": node("C20", variants=["dtlsr"], required=["send_ok", "dtlsr_unicast_judged", "dtlsr_linkstate_accepted", "dtlsr_linkstate_stale_or_equal", "dtlsr_recompute_tick"]),
    "C18": node("C18", variants=["spray", "binary_spray"], required=["send_ok", "spray_copy_given", "binary_spray_transmission_judged"]),
}

DST = "deterministic simulation with fault injection: seeded search over scripts, schedules and fault sequences"
NODE_NOTE = ("trusted: Go 1.26.8 runtime + testing/synctest fake clock, the harness's scripted peers and oracles, badger on tmpfs; "
             "not covered: real sockets, disk faults below the file API, backward clock jumps; sampling only")

MANIFEST_TEXT = {
    "C03": {"text": "Fault enumeration on a corrupting link: per generated fully CRC-protected bundle, every single-bit flip of its encoding (exhaustive) and seeded short bursts travel from the real serialiser through "
                    "a simulated MTCP stream into the real receiver; acceptance is judged by an independent CRC-16/X-25 / CRC-32C computation over independently delimited blocks; the serialiser's own CRCs (and the "
                    "mandatory primary-block CRC) are checked the same way. Bundles are sampled, flips per bundle are complete.",
            "design_ref": "DESIGN.md §4 C03", "note": "trusted: the independent CBOR delimiter and bitwise CRCs in simk; only the MTCP receive path (not the TCPCL reassembly or the store's part files) carries the corrupted bytes", "technique": DST + " (fault enumeration per run)"},
    "C04": {"text": "Fault enumeration on every decoder the statement lists, with structured faults only. Byte-stream decoders (MTCP framing + bundle, TCPCLv4 contact header and message switch): truncation at every offset, "
                    "a stall after every length/count field, every length/count field set to each boundary value; hostile peer-declared segment MRUs on the sending side. Whole-message decoders (discovery announcements, "
                    "administrative records, all extension blocks, bundles with a status report, endpoint-ID strings, WebSocket-agent messages, REST requests incl. build, BBC fragments / transmissions / xz): truncation at every "
                    "offset, every CBOR length/count (or number / JSON node / fragment identifier / xz dictionary size) set to boundary or alternative values. Oracle: the decoding task returns or is durably blocked on the stream "
                    "(synctest quiescence; 45 s watchdog for whole messages), nothing escapes as a panic / dead process, allocation stays within 4 MiB + 2 x delivered bytes. Not coverage-guided: arbitrary byte strings are not explored.",
            "design_ref": "DESIGN.md §4 C04, §8.3", "note": "trusted: synctest quiescence as the 'blocked on the stream' observation, MemStats as allocation measure; messages are sampled, faults per message are enumerated; no coverage-guided mutation (outside this technique)", "technique": DST + " (fault enumeration per run)"},
    "C07": {"text": "Seeded register/unregister/deliver/fetch histories on the real Core + AgentManager + MuxAgent + RestAgent + PingAgent with mock agents and scripted peers; oracle from the registration set at each "
                    "delivery: every registered recipient of exactly that endpoint gets the bundle once (mock agents: hand-over count; REST clients: all fetches together return it exactly once), nobody else, "
                    "never a peer, one pong per ping, a 'delivered' report and release from the store only after a hand-over; the deliver-during-fetch interleaving is forced at hooks. WebSocket clients (real agent + real connector over net.Pipe) connect, disconnect and receive between deliveries; an unregistration / registration that overlaps a fan-out is driven on the MuxAgent itself (held child), where the window is opened by the harness and the order inside it is left to the Go scheduler (on the unchanged tree the lock makes every order equivalent).",
            "design_ref": "DESIGN.md §4 C07", "note": NODE_NOTE + "; WebSocket clients only sequentially (no overlap of connect/disconnect with a delivery); exactly-once accounting on unique payloads instead of a linearizability checker", "technique": DST},
    "C12": {"text": "MTCP: real client and server handler on a simulated stream: the server's channel carries exactly a prefix of the sent bundles, in order and identical, keep-alives invisible, every send invoked "
                    "after the cut fails and the peer is reported gone. BBC: real connectors on a simulated broadcast medium: the clean train (fragment size <= MTU, consecutive sequence numbers, start/end marks, "
                    "reassembly) and, enumerated per train, every single drop/duplication/adjacent swap: never a different bundle, and failure signalled whenever the bundle was not obtained.",
            "design_ref": "DESIGN.md §4 C12, App. A.7", "note": "trusted: the stream and medium models, synctest; sampling over bundles/MTUs/offsets, enumeration of single faults per train", "technique": DST},
    "C11": {"text": "Real sending and receiving TransferManagers (or a scripted peer) on a simulated message wire under the fake clock: the outgoing XFER_SEGMENT sequence (size <= m, concatenation = encoding, "
                    "START/END placement), exactly-one identical bundle at the receiver, 'Send returned nil => the receiver has the complete transfer', an error within the acknowledgement timeout otherwise; "
                    "seeded over (L, m) with divisor bias, concurrent bidirectional transfers, non-acking / refusing peers and wire loss after every message index. Session level: two real Clients on a simulated "
                    "byte stream (chunking, reset or one-way blackhole at a byte offset, idle periods across many keep-alive intervals, Close, restart): Send nil => the peer's channel delivered exactly that bundle once; nothing "
                    "delivered that was not sent; a Send on an intact session succeeds and every Send returns within 180 simulated seconds; an intact idle session stays up, a lost one is torn down on both sides within 120 s. "
                    "One transfer in flight at a time at session level (concurrent transfers only at message level); WebSocket transport not simulated.",
            "design_ref": "DESIGN.md §4 C11, §8.3, App. A.8", "note": "trusted: synctest fake clock, the wire / stream models, harness oracles; sampling only", "technique": DST},
    "C08": {"text": "Seeded operation sequences on the real store against a reference map, with a simulated process kill at every instrumented point of Push/Delete "
                    "(durable state = directory contents at that instant; a store and a node are started on it), forced orders of two concurrent fragment pushes, and "
                    "close/reopen; oracle: exact lookups, byte-identical parts, pending query, one record per bundle with each distinct fragment once, complete iff covered, reassembly = original.",
            "design_ref": "DESIGN.md §4 C08", "note": "trusted: badger's own durability (SyncWrites), tmpfs semantics, the reference map; disk-level faults not modelled; sampling only", "technique": DST},
    "C16": {"text": "Seeded traces of adapter life-cycle events replayed against the real cla.Manager under the fake clock; after every settled step the "
                    "Sender()/Receiver() listing and every adapter's Start/Close history are compared with a reference state machine derived from the "
                    "statement (active iff latest start succeeded and not closed since, retry budget, permanent retries, single instance, close once, no panic).",
            "design_ref": "DESIGN.md §4 C16, App. A.3", "note": "trusted: synctest fake clock, scripted adapters, the reference machine; sampling only", "technique": DST},
    "C05": {"text": "Seeded exploration of node-level histories (submit/deliver/peer up/down/advance/restart, send failures, both serial and interleaved "
                    "schedules at store-write hooks) against retention, direct-delivery, epidemic-spread and bounded retry-liveness oracles on the real "
                    "Core+store+cron+CLA manager, all six algorithms. Evidence for the sampled runs, not proof.",
            "design_ref": "DESIGN.md §4 C05, App. A.1/A.2/A.9", "note": NODE_NOTE, "technique": DST},
    "C06": {"text": "Every Send on a scripted peer keeps the serialised bytes; an independent CBOR delimiter splits them into blocks and the oracle diffs them "
                    "against the accepted encoding (primary/payload byte-identical, hop count +1 on every attempt, previous node = this node, age + simulated "
                    "residence, remove-flagged unknown blocks absent, nothing added) and checks that refused/expired bundles are never sent and are dropped. "
                    "Seeded exploration over block mixes, residence times on the fake clock, retries and restarts.",
            "design_ref": "DESIGN.md §4 C06, App. A.9", "note": NODE_NOTE, "technique": DST},
    "C13": {"text": "Per-peer Send log oracle over seeded histories with failures, retries, restarts and interleaved dispatches: never to the previous node, "
                    "never again to a peer after a success reported before the dispatch was triggered (lineage of the parked task gives the trigger), per algorithm.",
            "design_ref": "DESIGN.md §4 C13", "note": NODE_NOTE, "technique": DST},
    "C14": {"text": "Seeded groups of same-millisecond / zero-time / concurrent submissions through Core.SendBundle and the agent manager; oracle: pairwise distinct "
                    "wire IDs, one store record per submission, store key = wire ID. The 'submitted concurrently' clause additionally has a burst harness: 2..12 submitters push 50..300 bundles each through the real "
                    "Core.SendBundle at one fake instant with the hooks off (the window is the simulator's, the order inside it the Go scheduler's); all IDs must be distinct and each bundle filed under its ID. On the "
                    "unchanged tree every order satisfies this; a change that only breaks true overlaps is found with a probability that grows with the burst size, and confirmed by repeated fresh-process runs.",
            "design_ref": "DESIGN.md §4 C14", "note": NODE_NOTE, "technique": DST},
    "C19": {"text": "Seeded histories of encounters, ageing ticks on the fake clock and summary vectors from scripted peers (constants and values drawn from [0,1] incl. 0, 1, denormals); "
                    "the node's vector is read from every metadata bundle it emits: range [0,1], per-key monotonicity between emissions (no ageing => no decrease; only ageing => no increase), "
                    "and every algorithm-chosen transmission of a data bundle is checked against the peer's last advertised predictability and a reference value resynchronised at each emission. "
                    "Crash clause: a quarter of the workers run a race-detector build in which lone parked tasks are held and then released together (simulator-chosen concurrent windows: ageing tick, "
                    "vector import, encounter, selection, serialisation of an outgoing vector); a reported race between PRoPHET code paths is a schedule on which Go can abort the process and is the violation.",
            "design_ref": "DESIGN.md §4 C19, App. A.5", "note": NODE_NOTE, "technique": DST},
    "C20": {"text": "Seeded link-state histories (up to 8 other nodes, directed links live or lost at past instants, reordered / duplicated / stale / equal-timestamp updates through scripted peers), "
                    "own neighbours appearing and disappearing on the fake clock, recompute/broadcast/purge ticks; the table is observed behaviourally (which scripted peer is handed a unicast probe) "
                    "and compared with an independent Floyd-Warshall over {own links} + {newest data per node}: routed iff reachable, next hop on some least-cost path at a recompute instant since the "
                    "last change, a single next hop; link-state bundles never twice to a peer.",
            "design_ref": "DESIGN.md §4 C20, App. A.6", "note": NODE_NOTE, "technique": DST},
    "C18": {"text": "Seeded histories (budgets 1..8, 0..6 peers, failures, retries, interleaved failure reports at the spray write-back hooks); oracles on the wire: vanilla spray never exceeds "
                    "L-1 successful transmissions and hands out all copies once faults stop; binary spray announces exactly half (rounded down) of what the sequence of outcomes says it holds, never "
                    "transmits a single copy to a non-destination, and a failure restores the count.",
            "design_ref": "DESIGN.md §4 C18, App. A.4", "note": NODE_NOTE, "technique": DST},
    "C15": {"text": "Every administrative record the node emits (seen at scripted peers, at local agents, or pending in the store) is decoded and matched against "
                    "the harness's event log: requested, truthful, addressed to report-to, exact referenced ID, time iff requested, never about admin records or "
                    "own report-to, bounded count. Seeded draw over flag x outcome combinations.",
            "design_ref": "DESIGN.md §4 C15", "note": NODE_NOTE, "technique": DST},
}

NOT_APPLICABLE = [
    {"property_id": "C01", "reason": "pure function of its input (serialise/parse round trip): no schedule, clock, fault or interleaving for a simulator to own; input generation alone would be property-based testing, not simulation (DESIGN.md §4 C01)"},
    {"property_id": "C02", "reason": "acceptance is a pure function of (bytes, now); the node-generated half is asserted as a standing invariant inside the C06/C15 checks but not claimed here (DESIGN.md §4 C02)"},
    {"property_id": "C09", "reason": "Bundle.Fragment/ReassembleFragments are pure and the node never calls Fragment: no link, path, schedule or fault the property could depend on (DESIGN.md §4 C09)"},
    {"property_id": "C10", "reason": "reassembly is a pure function of the fragment collection; its only stateful consumer (the store) is decided under C08 (DESIGN.md §4 C10)"},
    {"property_id": "C17", "reason": "per-message encode/decode round trips and URI grammar are pure functions; stream alignment is exercised, not decided, by the C11/C12 simulations (DESIGN.md §4 C17)"},
]
