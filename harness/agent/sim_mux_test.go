//go:debug asynctimerchan=0

package agent

// C07, fan-out under concurrent (un)registration: the real MuxAgent (the multiplexer behind both the
// node's agent manager and the WebSocket agent's client list) with recording agents that the harness
// can hold before they take the next message. A held agent makes the fan-out block at that child;
// while it is blocked another child unregisters (or a new one registers); then the held agent is let
// go. "once per accepted copy ... also while clients register, unregister ... concurrently with
// arriving bundles": every agent that is registered for the endpoint and is not the one changing its
// registration gets the bundle exactly once, the changing one at most once, nobody else anything, and
// the multiplexer does not die (a send on a closed channel would take the node down).
//
// The window is opened by the harness (hold / release), the order inside it is the Go scheduler's:
// on the unchanged tree the fan-out holds the multiplexer's lock, so every order gives the same
// result and the canonical log is a pure function of the seed.

import (
	"fmt"
	"io/ioutil"
	"runtime"
	"sort"
	"strings"
	"sync"
	"testing"
	"testing/synctest"
	"time"

	log "github.com/sirupsen/logrus"

	"github.com/dtn7/dtn7-go/pkg/bpv7"

	"verif.local/simk"
)

var muxT *testing.T

var muxEndpoints = []string{"dtn://node/a", "dtn://node/b"}

type gateAgent struct {
	name     string
	eids     []bpv7.EndpointID
	receiver chan Message
	sender   chan Message
	pause    chan chan struct{}
	mu       sync.Mutex
	got      map[string]int
	foreign  []string
	reg      bool
}

func newGateAgent(name string, eps []int) *gateAgent {
	a := &gateAgent{name: name, receiver: make(chan Message), sender: make(chan Message), pause: make(chan chan struct{}), got: map[string]int{}}
	for _, e := range eps {
		a.eids = append(a.eids, bpv7.MustNewEndpointID(muxEndpoints[e%len(muxEndpoints)]))
	}
	go func() {
		for {
			select {
			case rel := <-a.pause:
				<-rel
			case m, ok := <-a.receiver:
				if !ok {
					return
				}
				if bm, isB := m.(BundleMessage); isB {
					tag := "?"
					if pb, err := bm.Bundle.PayloadBlock(); err == nil {
						tag = string(pb.Value.(*bpv7.PayloadBlock).Data())
					}
					a.mu.Lock()
					a.got[tag]++
					if !AppAgentHasEndpoint(a, bm.Bundle.PrimaryBlock.Destination) {
						a.foreign = append(a.foreign, tag)
					}
					a.mu.Unlock()
				}
			}
		}
	}()
	return a
}
func (a *gateAgent) Endpoints() []bpv7.EndpointID { return a.eids }
func (a *gateAgent) MessageReceiver() chan Message { return a.receiver }
func (a *gateAgent) MessageSender() chan Message   { return a.sender }
func (a *gateAgent) count(tag string) int {
	a.mu.Lock()
	defer a.mu.Unlock()
	return a.got[tag]
}
func (a *gateAgent) listens(ep string) bool {
	for _, e := range a.eids {
		if e.String() == ep {
			return true
		}
	}
	return false
}

type muxSim struct {
	c      *simk.Case
	res    *simk.Result
	lg     *simk.Log
	mux    *MuxAgent
	agents []*gateAgent // children in registration order (registered ones)
	all    []*gateAgent
	want   map[*gateAgent]map[string][2]int // agent -> tag -> [min, max]
	seq    int
}

func runMuxCase(c *simk.Case) *simk.Result {
	res := &simk.Result{}
	s := &muxSim{c: c, res: res, lg: &simk.Log{}, want: map[*gateAgent]map[string][2]int{}}
	log.SetOutput(ioutil.Discard)
	log.SetLevel(log.PanicLevel)
	func() {
		defer func() {
			if r := recover(); r != nil {
				msg := fmt.Sprint(r)
				if !strings.Contains(msg, "blocked goroutines remain") && !strings.Contains(msg, "deadlock: main bubble goroutine has exited") {
					if res.HarnessErr == "" {
						res.HarnessErr = "bubble panic: " + msg
					}
				}
			}
		}()
		synctest.Test(muxT, func(t *testing.T) { s.body() })
	}()
	res.LogHash = s.lg.Hash()
	res.Log = s.lg.Lines
	return res
}

func spin() {
	for k := 0; k < 3000; k++ {
		runtime.Gosched()
	}
}

func (s *muxSim) expect(a *gateAgent, tag string, lo, hi int) {
	if s.want[a] == nil {
		s.want[a] = map[string][2]int{}
	}
	s.want[a][tag] = [2]int{lo, hi}
}

func (s *muxSim) register(eps []int) *gateAgent {
	a := newGateAgent(fmt.Sprintf("g%d", len(s.all)), eps)
	s.all = append(s.all, a)
	return a
}

func (s *muxSim) bundle(ep int) (BundleMessage, string, string) {
	s.seq++
	tag := fmt.Sprintf("M%03d", s.seq)
	dst := muxEndpoints[ep%len(muxEndpoints)]
	b, err := bpv7.Builder().CRC(bpv7.CRC32).Source("dtn://src/app").Destination(dst).
		CreationTimestampTime(time.Unix(1700000000+int64(s.seq), 0)).Lifetime("300000h").PayloadBlock([]byte(tag)).Build()
	if err != nil {
		panic(err)
	}
	return BundleMessage{Bundle: b}, tag, dst
}

func (s *muxSim) unregList(a *gateAgent) {
	for i, x := range s.agents {
		if x == a {
			s.agents = append(s.agents[:i:i], s.agents[i+1:]...)
			break
		}
	}
	a.reg = false
}

func (s *muxSim) body() {
	s.mux = NewMuxAgent()
	out := s.mux.MessageSender()
	go func() {
		for range out {
		}
	}()
	var initial [][]int
	simk.Recode(s.c.Cfg["agents"], &initial)
	for _, eps := range initial {
		a := s.register(eps)
		s.mux.Register(a)
		a.reg = true
		s.agents = append(s.agents, a)
	}
	synctest.Wait()
	for i, op := range s.c.Ops {
		s.lg.Add("op %d %s", i, op.String())
		s.exec(op)
		if len(s.res.Violations) > 0 {
			break
		}
	}
	synctest.Wait()
	s.judge()
	s.res.Nontrivial = s.seq > 0
	go func() {
		defer func() { _ = recover() }()
		s.mux.MessageReceiver() <- ShutdownMessage{}
	}()
	synctest.Wait()
}

func (s *muxSim) exec(op simk.Op) {
	switch op.K {
	case "reg":
		a := s.register(op.X)
		s.mux.Register(a)
		a.reg = true
		s.agents = append(s.agents, a)
		synctest.Wait()
	case "unreg":
		if len(s.agents) == 0 {
			return
		}
		a := s.agents[op.P%len(s.agents)]
		s.unregList(a)
		go func() { a.sender <- ShutdownMessage{} }()
		synctest.Wait()
	case "deliver":
		msg, tag, dst := s.bundle(int(op.N))
		for _, a := range s.agents {
			if a.listens(dst) {
				s.expect(a, tag, 1, 1)
			}
		}
		go func() { s.mux.MessageReceiver() <- msg }()
		synctest.Wait()
		s.lg.Add("deliver %s to %s", tag, dst)
	case "slow_unreg", "slow_reg":
		if len(s.agents) < 2 {
			return
		}
		slow := s.agents[op.P%len(s.agents)]
		var leaving *gateAgent
		if op.K == "slow_unreg" {
			leaving = s.agents[op.B%len(s.agents)]
			if leaving == slow {
				leaving = s.agents[(op.B+1)%len(s.agents)]
			}
		}
		msg, tag, dst := s.bundle(int(op.N))
		if !slow.listens(dst) {
			// the fan-out would not stop at this child: plain delivery
			for _, a := range s.agents {
				if a.listens(dst) {
					s.expect(a, tag, 1, 1)
				}
			}
			go func() { s.mux.MessageReceiver() <- msg }()
			synctest.Wait()
			return
		}
		rel := make(chan struct{})
		slow.pause <- rel // the agent is held before it takes its next message
		for _, a := range s.agents {
			if a.listens(dst) {
				if a == leaving {
					s.expect(a, tag, 0, 1)
				} else {
					s.expect(a, tag, 1, 1)
				}
			}
		}
		go func() { s.mux.MessageReceiver() <- msg }()
		spin() // the fan-out reaches the held child and blocks there
		var joining *gateAgent
		if leaving != nil {
			s.unregList(leaving)
			l := leaving
			go func() { l.sender <- ShutdownMessage{} }()
			s.res.Fault("unregister_during_fanout")
		} else {
			joining = s.register(op.X)
			if joining.listens(dst) {
				s.expect(joining, tag, 0, 1)
			}
			j := joining
			go func() { s.mux.Register(j) }()
			s.res.Fault("register_during_fanout")
		}
		spin() // the (un)registration runs into the fan-out (on the unchanged tree: waits for the lock)
		close(rel)
		synctest.Wait()
		if joining != nil {
			joining.reg = true
			s.agents = append(s.agents, joining)
		}
		s.lg.Add("%s %s to %s slow=%s other=%v", op.K, tag, dst, slow.name, func() string {
			if leaving != nil {
				return leaving.name
			}
			return joining.name
		}())
	}
}

func (s *muxSim) judge() {
	for _, a := range s.all {
		a.mu.Lock()
		got := map[string]int{}
		for k, v := range a.got {
			got[k] = v
		}
		foreign := append([]string(nil), a.foreign...)
		a.mu.Unlock()
		for _, t := range foreign {
			s.res.Violate("C07", "nobody-else", "agent-got-bundle-for-endpoint-it-did-not-register", "agent %s (endpoints %v) got %s", a.name, a.eids, t)
		}
		tags := map[string]bool{}
		for t := range got {
			tags[t] = true
		}
		for t := range s.want[a] {
			tags[t] = true
		}
		var ts []string
		for t := range tags {
			ts = append(ts, t)
		}
		sort.Strings(ts)
		for _, t := range ts {
			w, ok := s.want[a][t]
			g := got[t]
			switch {
			case !ok && g > 0:
				s.res.Violate("C07", "exactly-the-recipients", "agent-got-bundle-while-not-registered", "agent %s got %s %d times although it was not registered (for that endpoint) when it arrived", a.name, t, g)
			case g > w[1] && w[1] >= 1:
				s.res.Violate("C07", "exactly-the-recipients", "agent-got-bundle-more-than-once/fan-out-during-registration-change", "agent %s got %s %d times", a.name, t, g)
			case g > w[1]:
				s.res.Violate("C07", "exactly-the-recipients", "agent-got-bundle-while-not-registered", "agent %s got %s %d times, expected at most %d", a.name, t, g, w[1])
			case g < w[0]:
				s.res.Violate("C07", "exactly-the-recipients", "registered-agent-missed-bundle/fan-out-during-registration-change", "agent %s (registered for the endpoint the whole time) got %s %d times, expected %d", a.name, t, g, w[0])
			}
			if g > 0 {
				s.res.Probe("mux_agent_received")
			}
		}
	}
}

func genMuxCase(seed uint64, tier, focus, variant string) *simk.Case {
	r := simk.NewRand(seed, "script")
	c := &simk.Case{Harness: "mux", Seed: seed, Cfg: map[string]interface{}{}}
	var agents [][]int
	na := r.Range(2, 5)
	same := r.Bool(0.5) // template: everybody on one endpoint, so that the fan-out passes every child
	for i := 0; i < na; i++ {
		eps := []int{r.Intn(2)}
		if same {
			eps = []int{0}
		} else if r.Bool(0.3) {
			eps = []int{0, 1}
		}
		agents = append(agents, eps)
	}
	c.Cfg["agents"] = agents
	n := r.Range(2, 12)
	for i := 0; i < n; i++ {
		ep := int64(r.Intn(2))
		if same {
			ep = 0
		}
		switch x := r.Intn(100); {
		case x < 30:
			c.Ops = append(c.Ops, simk.Op{K: "deliver", N: ep})
		case x < 60:
			c.Ops = append(c.Ops, simk.Op{K: "slow_unreg", P: r.Intn(5), B: r.Intn(5), N: ep}, simk.Op{K: "reg", X: []int{int(ep)}})
		case x < 75:
			c.Ops = append(c.Ops, simk.Op{K: "slow_reg", P: r.Intn(5), N: ep, X: []int{int(ep)}})
		case x < 88:
			c.Ops = append(c.Ops, simk.Op{K: "reg", X: []int{r.Intn(2)}})
		default:
			c.Ops = append(c.Ops, simk.Op{K: "unreg", P: r.Intn(5)})
		}
	}
	return c
}
