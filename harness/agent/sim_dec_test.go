package agent

// C04 (client-facing decoders of package agent):
//   dec-wam   WebSocket-agent messages: every message type, marshalled by the real marshalCbor, is
//             truncated at every offset and has every CBOR length/count set to each boundary value;
//             decoded by the real unmarshalCbor (plus the register path's endpoint-ID parser)
//   dec-rest  REST requests through the real RestAgent behind its gorilla/mux router: /build,
//             /register, /unregister and /fetch bodies truncated at every offset and with every JSON
//             node replaced by values of other types, boundary numbers and nested containers
// The handler must answer or fail: no panic, no endless loop, bounded allocation (DESIGN.md §8.3).

import (
	"bytes"
	"encoding/json"
	"fmt"
	"io/ioutil"
	"net/http"
	"net/http/httptest"
	"os"
	"strings"
	"testing"
	"time"

	"github.com/gorilla/mux"
	log "github.com/sirupsen/logrus"

	"github.com/dtn7/dtn7-go/pkg/bpv7"

	"verif.local/simk"
)

func decWamBundle(r *simk.Rand) bpv7.Bundle {
	b, err := bpv7.Builder().CRC(bpv7.CRCType(r.Intn(3))).Source(fmt.Sprintf("dtn://c%d/app", r.Intn(100))).Destination("dtn://dst/svc").
		CreationTimestampTime(time.Unix(1700000000+int64(r.Intn(1<<20)), 0)).Lifetime("300000h").HopCountBlock(r.Range(1, 200)).
		PayloadBlock(bytes.Repeat([]byte{'p'}, r.Range(0, 200))).Build()
	if err != nil {
		panic(err)
	}
	return b
}

func runWamCase(c *simk.Case) *simk.Result {
	res := &simk.Result{}
	lg := &simk.Log{}
	r := simk.NewRand(c.Seed, "data")
	var msg webAgentMessage
	switch c.CfgInt("type", 0) % 5 {
	case 0:
		msg = newStatusMessage(fmt.Errorf("some error %d", r.Intn(1000)))
	case 1:
		msg = newRegisterMessage(fmt.Sprintf("dtn://c%d/app", r.Intn(100)))
	case 2:
		msg = newBundleMessage(decWamBundle(r))
	case 3:
		msg = newSyscallRequestMessage(r.PickS("node_id", "x", ""))
	default:
		msg = newSyscallResponseMessage("node_id", bytes.Repeat([]byte{1}, r.Range(0, 64)))
	}
	var buf bytes.Buffer
	if err := marshalCbor(msg, &buf); err != nil {
		res.HarnessErr = err.Error()
		return res
	}
	valid := buf.Bytes()
	if _, err := unmarshalCbor(bytes.NewReader(valid)); err != nil {
		res.Violate("C04", "clean", "clean-wam-not-decoded", "type %d: %v", msg.typeCode(), err)
	}
	faults := simk.DatagramFaults(valid)
	// the type code set to every small value and to the boundary values
	for _, h := range []uint64{0, 1, 2, 3, 4, 5, 23, 24, 255, 1 << 16, 1 << 32, 1<<64 - 1} {
		mut := append(append([]byte{0x82}, simk.CborHead(0, h)...), valid[2:]...)
		faults = append(faults, simk.DatagramFault{What: fmt.Sprintf("type code set to %d", h), Data: mut})
	}
	fed := simk.JudgeDecoder(res, "websocket-message", faults, func(d []byte) {
		if m, err := unmarshalCbor(bytes.NewReader(d)); err == nil {
			if reg, ok := m.(*wamRegister); ok {
				_, _ = bpv7.NewEndpointID(reg.endpoint)
			}
			if wb, ok := m.(*wamBundle); ok {
				_ = wb.b.ID().String()
			}
		}
	})
	res.Fault("datagram_cut")
	res.Fault("field_corrupt")
	res.Probe(fmt.Sprintf("wam_type_%d", msg.typeCode()))
	lg.Add("wam type=%d len=%d faults=%d", msg.typeCode(), len(valid), len(faults))
	res.LogHash, res.Log, res.Steps, res.Nontrivial = lg.Hash(), lg.Lines, fed, true
	return res
}

func genWamCase(seed uint64, tier, focus, variant string) *simk.Case {
	r := simk.NewRand(seed, "script")
	return &simk.Case{Harness: "dec-wam", Seed: seed, Cfg: map[string]interface{}{"type": r.Intn(5)}}
}

// ---------------------------------------------------------------- REST

func runRestCase(c *simk.Case) *simk.Result {
	log.SetOutput(ioutil.Discard)
	res := &simk.Result{}
	lg := &simk.Log{}
	r := simk.NewRand(c.Seed, "data")
	router := mux.NewRouter()
	ra := NewRestAgent(router)
	stop := make(chan struct{})
	built := 0
	drained := make(chan struct{})
	go func() { // the node side of the agent: takes what clients build
		defer close(drained)
		for {
			select {
			case <-ra.MessageSender():
				built++
			case <-stop:
				return
			}
		}
	}()
	post := func(path string, body []byte) *httptest.ResponseRecorder {
		rec := httptest.NewRecorder()
		router.ServeHTTP(rec, httptest.NewRequest(http.MethodPost, path, bytes.NewReader(body)))
		return rec
	}
	me := fmt.Sprintf("dtn://c%d/app", r.Intn(100))
	var reg RestRegisterResponse
	_ = json.Unmarshal(post("/register", []byte(fmt.Sprintf(`{"endpoint_id":%q}`, me))).Body.Bytes(), &reg)
	if reg.UUID == "" {
		res.HarnessErr = "registration failed: " + reg.Error
		return res
	}
	args := map[string]interface{}{"destination": "dtn://dst/svc", "source": me, "creation_timestamp_now": 1, "lifetime": "24h", "payload_block": "hello world"}
	if r.Bool(0.5) {
		args["bundle_age_block"] = r.Intn(100000)
	}
	if r.Bool(0.5) {
		args["previous_node_block"] = "dtn://prev/"
	}
	if r.Bool(0.5) {
		args["report_to"] = me
	}
	if r.Bool(0.3) {
		args["lifetime"] = r.Range(1000, 100000)
	}
	if r.Bool(0.3) {
		delete(args, "creation_timestamp_now")
		args["creation_timestamp_epoch"] = 1
		args["bundle_age_block"] = 0
	}
	path := []string{"/build", "/build", "/build", "/register", "/unregister", "/fetch"}[c.CfgInt("path", 0)%6]
	var valid []byte
	switch path {
	case "/build":
		valid, _ = json.Marshal(map[string]interface{}{"uuid": reg.UUID, "arguments": args})
		var br RestBuildResponse
		_ = json.Unmarshal(post(path, valid).Body.Bytes(), &br)
		if br.Error != "" {
			res.Violate("C04", "clean", "clean-build-request-refused", "%s: %s", valid, br.Error)
		}
	case "/register":
		valid = []byte(fmt.Sprintf(`{"endpoint_id":"dtn://c%d/other"}`, r.Intn(100)))
	case "/unregister", "/fetch":
		valid = []byte(fmt.Sprintf(`{"uuid":%q}`, reg.UUID))
	}
	faults := simk.JSONFaults(valid)
	if path == "/build" {
		// every builder method the request does not use, with every alternative value
		for _, k := range []string{"destination", "source", "report_to", "creation_timestamp_epoch", "creation_timestamp_now", "creation_timestamp_time", "lifetime",
			"bundle_ctrl_flags", "canonical", "bundle_age_block", "hop_count_block", "payload_block", "previous_node_block", "status_report", "no_such_method"} {
			if _, used := args[k]; used {
				continue
			}
			args[k] = 0
			body, _ := json.Marshal(map[string]interface{}{"uuid": reg.UUID, "arguments": args})
			delete(args, k)
			for _, f := range simk.JSONFaults(body) {
				if strings.Contains(f.What, "[arguments "+k+"]") {
					faults = append(faults, f)
				}
			}
		}
	}
	fed := simk.JudgeDecoder(res, "rest-request", faults, func(d []byte) {
		rec := post(path, d)
		_ = rec.Body.Len()
	})
	close(stop)
	<-drained
	res.Fault("datagram_cut")
	res.Fault("field_corrupt")
	res.Probe("rest" + path)
	lg.Add("rest %s args=%d len=%d faults=%d", path, len(args), len(valid)-len(reg.UUID), len(faults))
	res.LogHash, res.Log, res.Steps, res.Nontrivial = lg.Hash(), lg.Lines, fed, true
	return res
}

func genRestCase(seed uint64, tier, focus, variant string) *simk.Case {
	r := simk.NewRand(seed, "script")
	return &simk.Case{Harness: "dec-rest", Seed: seed, Cfg: map[string]interface{}{"path": r.Intn(6)}}
}

func TestSimWorker(t *testing.T) {
	if os.Getenv("VERIF_HARNESS") == "" {
		t.Skip("simulation worker: set VERIF_HARNESS")
	}
	muxT = t
	os.Exit(simk.WorkerMain([]*simk.Harness{{Name: "dec-wam", Gen: genWamCase, Run: runWamCase}, {Name: "dec-rest", Gen: genRestCase, Run: runRestCase},
		{Name: "mux", Gen: genMuxCase, Run: runMuxCase}}))
}
