//go:debug asynctimerchan=0

package utils

// C11 level A: real TransferManagers on a simulated message wire (DESIGN.md §4 C11, App. A.8).
// Each direction of the wire is a FIFO whose forwarding task parks before every message; the
// scheduler decides which direction proceeds and injects the faults (peer stops acknowledging,
// refuses, wire closes after message k). Side B is either the real receiving TransferManager or a
// scripted peer.

import (
	"bytes"
	"fmt"
	"os"
	"sort"
	"strconv"
	"strings"
	"sync"
	"testing"
	"testing/synctest"
	"time"

	"github.com/dtn7/dtn7-go/pkg/bpv7"
	"github.com/dtn7/dtn7-go/pkg/cla/tcpclv4/internal/msgs"

	"verif.local/simk"
)

var simT *testing.T

type tcBundle struct {
	tag  string
	b    bpv7.Bundle
	wire []byte
	// sender side observation
	segs      []*msgs.DataTransmissionMessage
	tid       uint64
	haveTid   bool
	sendDone  bool
	sendErr   error
	sendStart time.Time
	sendEnd   time.Time
	dir       string // "a2b" | "b2a"
	// receiver side observation
	received int
	endSeenByPeer bool
}

type tcSim struct {
	done  chan struct{} // closed at the end of a run: every harness task returns
	c     *simk.Case
	res   *simk.Result
	lg    *simk.Log
	sched *simk.Sched
	seed  uint64
	m     uint64
	steps int
	mu    sync.Mutex

	tmA, tmB *TransferManager
	aOut, bOut chan msgs.Message // what the managers write
	aIn, bIn   chan msgs.Message // what the managers read
	scripted   bool              // side B is a scripted peer
	peerMode   string            // "ack" | "noack" | "refuse" | "close"
	peerK      int               // fault after k segments
	peerSegs   int
	peerBuf    map[uint64]*bytes.Buffer
	a2bClosed, b2aClosed bool
	bundles    []*tcBundle
	byWire     map[string]*tcBundle
	gotA, gotB []bpv7.Bundle
	errsA, errsB []error
	wireSilentSince time.Time
	closeAfter map[string]bool
}

func tcBuild(tag string, payLen int, crc bpv7.CRCType) (bpv7.Bundle, []byte, error) {
	pay := []byte(tag + "|")
	for len(pay) < payLen {
		pay = append(pay, byte('a'+len(pay)%26))
	}
	b, err := bpv7.Builder().CRC(crc).Source("dtn://a/"+tag).Destination("dtn://b/x").CreationTimestampNow().Lifetime("1h").PayloadBlock(pay).Build()
	if err != nil {
		return b, nil, err
	}
	var buf bytes.Buffer
	if err := b.MarshalCbor(&buf); err != nil {
		return b, nil, err
	}
	return b, buf.Bytes(), nil
}

func runTcpclCase(c *simk.Case) *simk.Result {
	res := &simk.Result{}
	s := &tcSim{c: c, res: res, lg: &simk.Log{}, sched: simk.NewSched(), seed: c.Seed, byWire: map[string]*tcBundle{}, peerBuf: map[uint64]*bytes.Buffer{}, closeAfter: map[string]bool{}}
	func() {
		defer func() {
			if r := recover(); r != nil {
				msg := fmt.Sprint(r)
				if !strings.Contains(msg, "blocked goroutines remain") && !strings.Contains(msg, "deadlock: main bubble goroutine has exited") {
					if res.HarnessErr == "" {
						res.HarnessErr = "bubble panic: " + msg
					}
				}
			}
		}()
		synctest.Test(simT, func(t *testing.T) { s.body() })
	}()
	res.LogHash = s.lg.Hash()
	res.Log = s.lg.Lines
	res.Steps = s.steps
	return res
}

// forward is the wire task of one direction.
func (s *tcSim) forward(dir string, from <-chan msgs.Message, to chan msgs.Message) {
	// behind the schedule point the wire has a socket's worth of buffering (unbounded here): a
	// receiver that is busy writing its own acknowledgements must not stall the other direction
	q := make(chan msgs.Message)
	go func() {
		var buf []msgs.Message
		in := q
		for in != nil || len(buf) > 0 {
			var out chan msgs.Message
			var head msgs.Message
			if len(buf) > 0 {
				out, head = to, buf[0]
			}
			select {
			case m, ok := <-in:
				if !ok {
					in = nil
					continue
				}
				buf = append(buf, m)
			case out <- head:
				buf = buf[1:]
			case <-s.done:
				return
			}
		}
		if s.closeAfter[dir] {
			close(to)
		}
	}()
	n := 0
	for {
		var m msgs.Message
		select {
		case m = <-from:
		case <-s.done:
			return
		}
		n++
		v := s.sched.Park("wire."+dir, strconv.Itoa(n), m)
		switch v {
		case "deliver":
			select {
			case q <- m:
			case <-s.done:
				return
			}
		case "drop":
		case "close":
			s.closeAfter[dir] = true
			close(q)
			// keep draining so that writers do not block for ever on a dead wire
			for {
				select {
				case <-from:
				case <-s.done:
					return
				}
			}
		default:
			close(q)
			return
		}
	}
}

// scriptedPeer plays side B: it reads segments from bIn and answers on bOut according to peerMode.
func (s *tcSim) scriptedPeer() {
	for {
		var m msgs.Message
		var open bool
		select {
		case m, open = <-s.bIn:
			if !open {
				return
			}
		case <-s.done:
			return
		}
		dtm, ok := m.(*msgs.DataTransmissionMessage)
		if !ok {
			continue
		}
		s.mu.Lock()
		s.peerSegs++
		k := s.peerSegs
		buf := s.peerBuf[dtm.TransferId]
		if buf == nil {
			buf = new(bytes.Buffer)
			s.peerBuf[dtm.TransferId] = buf
		}
		buf.Write(dtm.Data)
		total := buf.Len()
		if dtm.Flags&msgs.SegmentEnd != 0 {
			if tb := s.byWire[string(buf.Bytes())]; tb != nil {
				tb.endSeenByPeer = true
			}
		}
		mode := s.peerMode
		s.mu.Unlock()
		faulty := mode != "ack" && k > s.peerK
		switch {
		case !faulty:
			select {
			case s.bOut <- msgs.NewDataAcknowledgementMessage(dtm.Flags, dtm.TransferId, uint64(total)):
			case <-s.done:
				return
			}
		case mode == "noack":
		case mode == "refuse":
			select {
			case s.bOut <- msgs.NewTransferRefusalMessage(msgs.TransferRefusalCode(s.c.CfgInt("refuse_code", 2)), dtm.TransferId):
			case <-s.done:
				return
			}
		}
	}
}

func (s *tcSim) body() {
	time.Sleep(500 * 24 * time.Hour)
	t0 := time.Now()
	s.m = uint64(s.c.CfgInt("m", 64))
	s.scripted = s.c.CfgB("scripted")
	s.peerMode = s.c.CfgS("peer_mode", "ack")
	s.peerK = s.c.CfgInt("peer_k", 0)
	// like the real message switch: 32 messages of buffering on each channel
	s.done = make(chan struct{})
	s.aOut, s.bOut = make(chan msgs.Message, 32), make(chan msgs.Message, 32)
	s.aIn, s.bIn = make(chan msgs.Message, 32), make(chan msgs.Message, 32)
	s.tmA = NewTransferManager(s.aIn, s.aOut, s.m)
	go s.forward("a2b", s.aOut, s.bIn)
	go s.forward("b2a", s.bOut, s.aIn)
	go s.drain(s.tmA, &s.gotA, &s.errsA)
	if s.scripted {
		go s.scriptedPeer()
	} else {
		s.tmB = NewTransferManager(s.bIn, s.bOut, uint64(s.c.CfgInt("m_b", int(s.m))))
		go s.drain(s.tmB, &s.gotB, &s.errsB)
	}
	var specs []struct {
		Tag string `json:"tag"`
		Pay int    `json:"pay"`
		CRC int    `json:"crc"`
		Dir string `json:"dir"`
	}
	simk.Recode(s.c.Cfg["bundles"], &specs)
	for _, sp := range specs {
		b, wire, err := tcBuild(sp.Tag, sp.Pay, bpv7.CRCType(sp.CRC))
		if err != nil {
			s.res.HarnessErr = err.Error()
			return
		}
		tb := &tcBundle{tag: sp.Tag, b: b, wire: wire, dir: sp.Dir}
		s.bundles = append(s.bundles, tb)
		s.byWire[string(wire)] = tb
	}
	// all sends start concurrently
	for _, tb := range s.bundles {
		tb := tb
		tm := s.tmA
		if tb.dir == "b2a" {
			if s.tmB == nil {
				continue
			}
			tm = s.tmB
		}
		tb.sendStart = time.Now()
		s.sched.SetCause("send." + tb.tag)
		go func() {
			err := tm.Send(tb.b)
			s.mu.Lock()
			tb.sendErr, tb.sendDone, tb.sendEnd = err, true, time.Now()
			s.mu.Unlock()
		}()
		synctest.Wait()
	}
	s.settle()
	// liveness: the wire is silent now; every Send must return within the acknowledgement timeout
	time.Sleep(10*time.Second + 1500*time.Millisecond)
	s.settle()
	s.judge()
	s.res.SimMs = int64(time.Since(t0) / time.Millisecond)
	s.sched.SetFree(true)
	_ = s.tmA.Close()
	if s.tmB != nil {
		_ = s.tmB.Close()
	}
	for _, t := range s.sched.Parked() {
		s.sched.Release(t, nil)
	}
	// end every harness task, give the managers' own goroutines (senders in their acknowledgement timeout) the time
	// to finish: a goroutine left blocked in a dead bubble keeps its buffers (1 MiB segments) for the life of the worker
	close(s.done)
	time.Sleep(12 * time.Second)
	synctest.Wait()
	s.res.Nontrivial = len(s.bundles) > 0
}

func (s *tcSim) drain(tm *TransferManager, got *[]bpv7.Bundle, errs *[]error) {
	bs, es := tm.Exchange()
	for {
		select {
		case b := <-bs:
			s.mu.Lock()
			*got = append(*got, b)
			s.mu.Unlock()
		case e := <-es:
			s.mu.Lock()
			*errs = append(*errs, e)
			s.mu.Unlock()
		case <-tm.stopChan:
			return
		}
	}
}

// stepBound: every segment and its acknowledgement cross the wire once; four times that plus slack is the
// point at which a transfer is called endless (a 5 kB bundle in 1-byte segments legitimately needs > 10000 steps)
func (s *tcSim) stepBound() int {
	need := 0
	for _, tb := range s.bundles {
		m := int(s.m)
		if tb.dir == "b2a" && s.c.CfgInt("m_b", 0) > 0 {
			m = s.c.CfgInt("m_b", m)
		}
		if m < 1 {
			m = 1
		}
		if m > 1<<20 {
			m = 1 << 20
		}
		need += (len(tb.wire) + m - 1) / m
	}
	if b := 8*need + 2000; b > 60000 {
		return b
	}
	return 60000
}

func (s *tcSim) settle() {
	for {
		synctest.Wait()
		parked := s.sched.Parked()
		if len(parked) == 0 {
			return
		}
		s.steps++
		if s.steps > s.stepBound() {
			s.res.Violate("C11", "terminates", "transfer-does-not-terminate", "more than %d wire steps (segment size %d)", s.stepBound(), s.m)
			s.sched.SetFree(true)
			for _, t := range parked {
				s.sched.Release(t, nil)
			}
			return
		}
		t := parked[0]
		if len(parked) > 1 {
			t = parked[int(simk.Decide(s.seed, "pick", strconv.Itoa(s.steps))%uint64(len(parked)))]
		}
		msg := t.Data.(msgs.Message)
		verdict := "deliver"
		dir := strings.TrimPrefix(t.Point, "wire.")
		if dtm, ok := msg.(*msgs.DataTransmissionMessage); ok {
			s.observeSegment(dir, dtm)
		}
		// wire faults: close after the k-th message of a direction
		if s.c.CfgS("wire_fault", "") == "close_"+dir {
			if n, _ := strconv.Atoi(t.Key); n > s.c.CfgInt("wire_k", 0) {
				verdict = "close"
				s.res.Fault("wire_close")
			}
		}
		if s.c.CfgS("wire_fault", "") == "drop_"+dir {
			if n, _ := strconv.Atoi(t.Key); n > s.c.CfgInt("wire_k", 0) {
				verdict = "drop"
				s.res.Fault("wire_blackhole")
			}
		}
		s.sched.Release(t, verdict)
	}
}

// observeSegment: the outgoing XFER_SEGMENT sequence of every transfer.
func (s *tcSim) observeSegment(dir string, dtm *msgs.DataTransmissionMessage) {
	if uint64(len(dtm.Data)) > s.segLimit(dir) {
		s.res.Violate("C11", "segment-size", "segment-larger-than-negotiated", "segment of %d bytes, negotiated size %d", len(dtm.Data), s.segLimit(dir))
	}
	// attribute the segment to a bundle: by transfer id once known, else by content prefix
	var tb *tcBundle
	for _, c := range s.bundles {
		if c.dir == dir && c.haveTid && c.tid == dtm.TransferId {
			tb = c
		}
	}
	if tb == nil {
		for _, c := range s.bundles {
			if c.dir == dir && !c.haveTid && bytes.HasPrefix(c.wire, dtm.Data) && len(dtm.Data) > 0 {
				// ambiguous prefixes are resolved by the start flag and the first unused candidate
				if dtm.Flags&msgs.SegmentStart != 0 {
					tb = c
					break
				}
			}
		}
		if tb == nil {
			for _, c := range s.bundles {
				if c.dir == dir && !c.haveTid {
					tb = c
					break
				}
			}
		}
		if tb != nil {
			tb.tid, tb.haveTid = dtm.TransferId, true
		}
	}
	if tb == nil {
		s.res.Violate("C11", "segments", "segment-of-unknown-transfer", "transfer id %d", dtm.TransferId)
		return
	}
	tb.segs = append(tb.segs, dtm)
}

func (s *tcSim) segLimit(dir string) uint64 {
	if dir == "b2a" {
		return uint64(s.c.CfgInt("m_b", int(s.m)))
	}
	return s.m
}

func (s *tcSim) judge() {
	s.mu.Lock()
	defer s.mu.Unlock()
	recvd := map[string]int{}
	count := func(got []bpv7.Bundle) {
		for i := range got {
			var buf bytes.Buffer
			_ = got[i].MarshalCbor(&buf)
			recvd[string(buf.Bytes())]++
		}
	}
	count(s.gotA)
	count(s.gotB)
	for w, k := range recvd {
		if s.byWire[w] == nil {
			s.res.Violate("C11", "identical", "receiver-hands-up-a-bundle-that-was-not-sent", "a received bundle (%d bytes, %d times) matches nothing that was sent", len(w), k)
		}
	}
	faultFree := !s.scripted && s.c.CfgS("wire_fault", "") == ""
	tags := []string{}
	for _, tb := range s.bundles {
		tags = append(tags, tb.tag)
	}
	sort.Strings(tags)
	for _, tb := range s.bundles {
		if tb.dir == "b2a" && s.tmB == nil {
			continue
		}
		L := len(tb.wire)
		div := ""
		if s.segLimit(tb.dir) > 0 && uint64(L)%s.segLimit(tb.dir) == 0 {
			div = "/segment-size-divides-length"
			s.res.Probe("m_divides_L")
		}
		if !tb.sendDone {
			s.res.Violate("C11", "send-returns", "send-does-not-return", "%s (L=%d, m=%d): Send has not returned %v after the wire went silent", tb.tag, L, s.segLimit(tb.dir), time.Since(tb.sendStart))
			continue
		}
		got := recvd[string(tb.wire)]
		delivered := got > 0 || tb.endSeenByPeer
		if got > 1 {
			s.res.Violate("C11", "exactly-one", "bundle-handed-up-more-than-once", "%s handed up %d times", tb.tag, got)
		}
		// segment sequence
		var cat []byte
		for i, sg := range tb.segs {
			cat = append(cat, sg.Data...)
			if (sg.Flags&msgs.SegmentStart != 0) != (i == 0) {
				s.res.Violate("C11", "flags", "start-flag-misplaced"+div, "%s: segment %d of %d has START=%v", tb.tag, i, len(tb.segs), sg.Flags&msgs.SegmentStart != 0)
			}
			if sg.Flags&msgs.SegmentEnd != 0 && i != len(tb.segs)-1 {
				s.res.Violate("C11", "flags", "end-flag-before-last-segment"+div, "%s: segment %d of %d has END", tb.tag, i, len(tb.segs))
			}
		}
		if tb.sendErr == nil {
			s.res.Probe("send_success")
			if !bytes.Equal(cat, tb.wire) {
				s.res.Violate("C11", "concatenation", "segments-do-not-concatenate-to-the-bundle"+div, "%s: Send succeeded, %d segments carry %d bytes, the encoding has %d", tb.tag, len(tb.segs), len(cat), L)
			}
			if len(tb.segs) == 0 || tb.segs[len(tb.segs)-1].Flags&msgs.SegmentEnd == 0 {
				s.res.Violate("C11", "flags", "no-end-flag-on-last-segment"+div, "%s (L=%d, m=%d): Send succeeded after %d segments, the last one carries no END flag", tb.tag, L, s.segLimit(tb.dir), len(tb.segs))
			}
			if !delivered {
				s.res.Violate("C11", "success-means-delivered", "send-succeeded-but-receiver-has-no-complete-transfer"+div, "%s (L=%d, m=%d): Send returned nil, the receiver never obtained the end of the transfer / handed up no bundle", tb.tag, L, s.segLimit(tb.dir))
			}
		} else {
			s.res.Probe("send_error")
			if faultFree {
				s.res.Violate("C11", "fault-free-succeeds", "send-fails-without-any-fault"+div, "%s (L=%d, m=%d): %v", tb.tag, L, s.segLimit(tb.dir), tb.sendErr)
			}
		}
		if faultFree && got != 1 {
			s.res.Violate("C11", "exactly-one", "fault-free-transfer-not-handed-up-once"+div, "%s (L=%d, m=%d): handed up %d times", tb.tag, L, s.segLimit(tb.dir), got)
		}
		s.lg.Add("%s dir=%s L=%d segs=%d err=%v received=%d", tb.tag, tb.dir, L, len(tb.segs), tb.sendErr != nil, got)
	}
	if faultFree {
		for _, e := range append(append([]error(nil), s.errsA...), s.errsB...) {
			s.res.Violate("C11", "fault-free-succeeds", "transfer-manager-reports-error-without-fault", "%v", e)
		}
	}
}

func genTcpclCase(seed uint64, tier, focus, variant string) *simk.Case {
	r := simk.NewRand(seed, "script")
	c := &simk.Case{Harness: "tcpcl", Seed: seed, Cfg: map[string]interface{}{}}
	type spec struct {
		Tag string `json:"tag"`
		Pay int    `json:"pay"`
		CRC int    `json:"crc"`
		Dir string `json:"dir"`
	}
	var specs []spec
	mode := r.Intn(10)
	nA, nB := 1, 0
	if mode >= 7 {
		nA, nB = r.Range(1, 4), r.Range(0, 4)
	}
	maxPay := 400
	if tier == "thorough" && r.Bool(0.2) {
		maxPay = 6000
	}
	for i := 0; i < nA+nB; i++ {
		d := "a2b"
		if i >= nA {
			d = "b2a"
		}
		specs = append(specs, spec{Tag: fmt.Sprintf("T%d", i), Pay: r.Range(4, maxPay), CRC: r.Pick(0, 1, 2), Dir: d})
	}
	c.Cfg["bundles"] = specs
	// the encoded length of the first bundle decides the interesting segment sizes
	_, wire, err := tcBuild(specs[0].Tag, specs[0].Pay, bpv7.CRCType(specs[0].CRC))
	L := 100
	if err == nil {
		L = len(wire)
	}
	var divs []int
	for d := 1; d <= L; d++ {
		if L%d == 0 {
			divs = append(divs, d)
		}
	}
	var m int
	switch r.Intn(8) {
	case 0:
		m = 1
	case 1:
		m = 2
	case 2, 3:
		m = divs[r.Intn(len(divs))]
	case 4:
		m = L + r.Pick(-1, 0, 1, 2)
	case 5:
		m = r.Range(1, L+2)
	default:
		m = r.Pick(16, 64, 100, 1024, 1048576)
	}
	if m < 1 {
		m = 1
	}
	if m < 8 && L > 1500 {
		m = 8 * m
	}
	c.Cfg["m"] = m
	c.Cfg["m_b"] = m
	if r.Bool(0.3) {
		c.Cfg["m_b"] = r.Pick(1, 7, 64, 1000)
	}
	nseg := L/m + 1
	switch x := r.Intn(10); {
	case x < 5:
	case x < 7 && nB == 0:
		c.Cfg["scripted"] = true
		c.Cfg["peer_mode"] = r.PickS("noack", "refuse", "ack")
		c.Cfg["peer_k"] = r.Range(0, nseg)
		c.Cfg["refuse_code"] = r.Range(0, 6)
	case x < 9:
		c.Cfg["wire_fault"] = r.PickS("close_a2b", "close_b2a", "drop_a2b", "drop_b2a")
		c.Cfg["wire_k"] = r.Range(0, nseg+1)
	default:
		if nB == 0 {
			c.Cfg["scripted"] = true
			c.Cfg["peer_mode"] = "ack"
		}
	}
	return c
}

func TestSimWorker(t *testing.T) {
	if os.Getenv("VERIF_HARNESS") == "" {
		t.Skip("simulation worker: set VERIF_HARNESS")
	}
	simT = t
	os.Exit(simk.WorkerMain([]*simk.Harness{{Name: "tcpcl", Gen: genTcpclCase, Run: runTcpclCase}, {Name: "dec-tcpcl", Gen: genTcDecCase, Run: runTcDecCase}}))
}
