package utils

// C04 (TCPCLv4 messages behind the message switch, and peer-declared segment sizes):
// a well-formed message stream from a simulated peer is cut at every offset, stalled after every
// length field, and every length field is set to each boundary value of its width; a transfer is
// sent with each boundary value as the peer's segment MRU. DESIGN.md §4 C04 (partial claim).

import (
	"bytes"
	"encoding/binary"
	"fmt"
	"io"
	"runtime"
	"strings"
	"sync"
	"testing"
	"testing/synctest"
	"time"

	"github.com/dtn7/dtn7-go/pkg/cla/tcpclv4/internal/msgs"

	"verif.local/simk"
)

// tcStream: durable-blocking reader fed by the harness.
type tcStream struct {
	ch     chan []byte
	rest   []byte
	closed chan struct{}
	once   sync.Once
}

func (s *tcStream) Read(p []byte) (int, error) {
	if len(s.rest) == 0 {
		select {
		case c := <-s.ch:
			s.rest = c
		default:
			select {
			case c := <-s.ch:
				s.rest = c
			case <-s.closed:
				select {
				case c := <-s.ch:
					s.rest = c
				default:
					return 0, io.EOF
				}
			}
		}
	}
	n := copy(p, s.rest)
	s.rest = s.rest[n:]
	return n, nil
}

type tcDecOutcome struct {
	msgs      int
	gotErr    bool
	quiet     bool
	allocated uint64
	again     func() *tcDecOutcome
}

func tcFeed(data []byte, keepOpen bool, rnd *simk.Rand) *tcDecOutcome {
	out := &tcDecOutcome{}
	out.again = func() *tcDecOutcome { return tcFeed(data, keepOpen, rnd) }
	st := &tcStream{ch: make(chan []byte, len(data)+4), closed: make(chan struct{})}
	for d := data; len(d) > 0; {
		k := 1 + rnd.Intn(37)
		if k > len(d) {
			k = len(d)
		}
		st.ch <- d[:k]
		d = d[k:]
	}
	if !keepOpen {
		st.once.Do(func() { close(st.closed) })
	}
	var m0, m1 runtime.MemStats
	runtime.ReadMemStats(&m0)
	ms := NewMessageSwitchReaderWriter(st, &bytes.Buffer{})
	in, _, errs := ms.Exchange()
	done := make(chan struct{})
	go func() {
		for {
			select {
			case <-in:
				out.msgs++
			case <-errs:
				out.gotErr = true
			case <-done:
				return
			}
		}
	}()
	synctest.Wait()
	runtime.ReadMemStats(&m1)
	out.allocated = m1.TotalAlloc - m0.TotalAlloc
	out.quiet = true
	st.once.Do(func() { close(st.closed) })
	synctest.Wait()
	_ = ms.Close()
	close(done)
	synctest.Wait()
	return out
}

type tcDecSim struct {
	c   *simk.Case
	res *simk.Result
	lg  *simk.Log
}

func runTcDecCase(c *simk.Case) *simk.Result {
	res := &simk.Result{}
	s := &tcDecSim{c: c, res: res, lg: &simk.Log{}}
	func() {
		defer func() {
			if r := recover(); r != nil {
				msg := fmt.Sprint(r)
				if !strings.Contains(msg, "blocked goroutines remain") && !strings.Contains(msg, "deadlock: main bubble goroutine has exited") {
					if res.HarnessErr == "" {
						res.HarnessErr = "bubble panic: " + msg
					}
				}
			}
		}()
		synctest.Test(simT, func(t *testing.T) { s.body() })
	}()
	res.LogHash = s.lg.Hash()
	res.Log = s.lg.Lines
	return res
}

type lenField struct {
	pos, width int
	what       string
}

func (s *tcDecSim) body() {
	time.Sleep(1000 * 24 * time.Hour)
	t0 := time.Now()
	c := s.c
	r := simk.NewRand(c.Seed, "data")
	rnd := simk.NewRand(c.Seed, "chunks")
	if c.CfgS("mode", "messages") == "mru" {
		s.mru()
		s.res.SimMs = int64(time.Since(t0) / time.Millisecond)
		return
	}
	// a well-formed message stream with the positions of its length fields
	var stream bytes.Buffer
	var fields []lenField
	var count int
	add := func(m msgs.Message) int {
		p := stream.Len()
		if err := m.Marshal(&stream); err != nil {
			s.res.HarnessErr = err.Error()
		}
		count++
		return p
	}
	nodeID := "dtn://peer" + strings.Repeat("x", r.Intn(20)) + "/"
	add(msgs.NewContactHeader(msgs.ContactFlags(r.Intn(2)))) // 'dtn!' + version + flags, as a session starts
	p := add(msgs.NewSessionInitMessage(uint16(r.Range(0, 600)), uint64(r.Range(1, 1<<20)), uint64(r.Range(1, 1<<24)), nodeID))
	fields = append(fields, lenField{p + 1 + 2 + 8 + 8, 2, "SESS_INIT node id length"}, lenField{p + 1 + 2 + 8 + 8 + 2 + len(nodeID), 4, "SESS_INIT session extension items length"})
	for k := r.Range(1, 3); k > 0; k-- {
		data := make([]byte, r.Pick(0, 1, 23, 100, 700))
		for i := range data {
			data[i] = byte(r.Intn(256))
		}
		p = add(msgs.NewDataTransmissionMessage(msgs.SegmentStart|msgs.SegmentEnd, uint64(r.Intn(1000)), data))
		fields = append(fields, lenField{p + 1 + 1 + 8, 4, "XFER_SEGMENT transfer extension items length"}, lenField{p + 1 + 1 + 8 + 4, 8, "XFER_SEGMENT data length"})
		add(msgs.NewDataAcknowledgementMessage(msgs.SegmentEnd, uint64(r.Intn(1000)), uint64(len(data))))
		if r.Bool(0.5) {
			add(msgs.NewKeepaliveMessage())
		}
	}
	add(msgs.NewTransferRefusalMessage(msgs.RefusalNoResources, 7))
	add(msgs.NewSessionTerminationMessage(0, msgs.TerminationIdleTimeout))
	if s.res.HarnessErr != "" {
		return
	}
	data := stream.Bytes()
	clean := tcFeed(data, false, rnd)
	if clean.msgs != count {
		s.res.Violate("C04", "clean", "clean-message-stream-not-decoded", "%d of %d messages decoded", clean.msgs, count)
	}
	baseline := clean.allocated
	_ = baseline
	stop := false
	common := func(what string, o *tcDecOutcome, delivered int) {
		if stop {
			return
		}
		defer func() { stop = len(s.res.Violations) > 0 }() // one finding per run is enough: giant allocations are slow
		// TotalAlloc is process-wide and a little noisy: the bound has 4 MiB of slack (every boundary
		// value from 2^31-1 upwards is far beyond it) and an excess must show twice
		if limit := uint64(4<<20) + 2*uint64(delivered); o.allocated > limit && o.again != nil && o.again().allocated > limit {
			s.res.Violate("C04", "bounded-allocation", "allocation-exceeds-delivered-bytes/"+strings.Fields(what)[0], "%s: %d bytes allocated while only %d bytes arrived (bound: 4 MiB + 2 x delivered)", what, o.allocated, delivered)
		}
	}
	for k := 0; k < len(data) && !stop; k++ {
		o := tcFeed(data[:k], false, rnd)
		common(fmt.Sprintf("cut after %d bytes", k), o, k)
		if k < len(data) && !o.gotErr && o.msgs == count {
			s.res.Violate("C04", "verdict", "truncated-stream-decoded-completely", "cut after %d of %d bytes but all %d messages were decoded", k, len(data), count)
		}
	}
	s.res.Fault("stream_cut")
	for _, f := range fields {
		if stop {
			break
		}
		o := tcFeed(data[:f.pos+f.width], true, rnd)
		common("stall after "+f.what, o, f.pos+f.width)
	}
	s.res.Fault("stream_stall")
	for _, f := range fields {
		for _, v := range simk.BoundaryValues {
			if stop {
				break
			}
			if f.width < 8 && v >= 1<<(8*uint(f.width)) {
				v = 1<<(8*uint(f.width)) - 1
			}
			mut := append([]byte(nil), data...)
			switch f.width {
			case 2:
				binary.BigEndian.PutUint16(mut[f.pos:], uint16(v))
			case 4:
				binary.BigEndian.PutUint32(mut[f.pos:], uint32(v))
			default:
				binary.BigEndian.PutUint64(mut[f.pos:], v)
			}
			what := fmt.Sprintf("%s set to %d", strings.Replace(f.what, " ", "_", -1), v)
			o := tcFeed(mut, false, rnd)
			common(what, o, len(mut))
			o = tcFeed(mut[:f.pos+f.width], true, rnd)
			common(what+" (then stall)", o, f.pos+f.width)
		}
	}
	s.res.Fault("field_corrupt")
	s.lg.Add("stream=%d fields=%d", len(data), len(fields))
	s.res.Steps = len(data) + len(fields)*(1+2*len(simk.BoundaryValues))
	s.res.SimMs = int64(time.Since(t0) / time.Millisecond)
	s.res.Nontrivial = true
}

// mru: the peer declared the segment MRU given in the case during SESS_INIT; the node is asked to
// send a bundle. It must neither panic nor spin nor allocate in proportion to the declared size.
func (s *tcDecSim) mru() {
	mru := simk.BoundaryValues[s.c.CfgInt("mru_idx", 0)%len(simk.BoundaryValues)]
	b, wire, err := tcBuild("M0", s.c.CfgInt("pay", 50), 2)
	if err != nil {
		s.res.HarnessErr = err.Error()
		return
	}
	out := make(chan msgs.Message, 32)
	in := make(chan msgs.Message, 32)
	var m0, m1 runtime.MemStats
	runtime.ReadMemStats(&m0)
	tm := NewTransferManager(in, out, mru)
	segs, bytesOut := 0, 0
	stop := make(chan struct{})
	go func() {
		for {
			select {
			case m := <-out:
				if dtm, ok := m.(*msgs.DataTransmissionMessage); ok {
					segs++
					bytesOut += len(dtm.Data)
					if segs > len(wire)+2 {
						continue // swallow: the oracle below reports the spin
					}
					in <- msgs.NewDataAcknowledgementMessage(dtm.Flags, dtm.TransferId, uint64(bytesOut))
				}
			case <-stop:
				return
			}
		}
	}()
	done := false
	var sendErr error
	go func() { sendErr = tm.Send(b); done = true }()
	// a spinning sender keeps the bubble busy for ever: bound the wait in simulated time
	deadline := time.Now().Add(30 * time.Second)
	for !done && time.Now().Before(deadline) && segs <= len(wire)+2 {
		time.Sleep(100 * time.Millisecond)
	}
	runtime.ReadMemStats(&m1)
	s.res.Probe("hostile_segment_mru")
	s.lg.Add("mru=%d segs=%d done=%v err=%v", mru, segs, done, sendErr != nil)
	if segs > len(wire)+2 {
		s.res.Violate("C04", "no-spin", "sender-emits-more-segments-than-the-bundle-has-bytes", "peer-declared segment MRU %d: %d segments for a bundle of %d bytes", mru, segs, len(wire))
	}
	if alloc := m1.TotalAlloc - m0.TotalAlloc; alloc > uint64(8<<20)+4*uint64(len(wire)) { // a fixed cap per segment buffer is fine; proportional to the declared size is not
		s.res.Violate("C04", "bounded-allocation", "sender-allocates-in-proportion-to-declared-mru", "peer-declared segment MRU %d: %d bytes allocated to send a bundle of %d bytes", mru, alloc, len(wire))
	}
	close(stop)
	_ = tm.Close()
	s.res.Nontrivial = true
}

func genTcDecCase(seed uint64, tier, focus, variant string) *simk.Case {
	r := simk.NewRand(seed, "script")
	c := &simk.Case{Harness: "dec-tcpcl", Seed: seed, Cfg: map[string]interface{}{}}
	if r.Bool(0.3) {
		c.Cfg["mode"] = "mru"
		c.Cfg["mru_idx"] = r.Intn(len(simk.BoundaryValues))
		c.Cfg["pay"] = r.Pick(1, 50, 300)
	} else {
		c.Cfg["mode"] = "messages"
	}
	return c
}

var _ = testing.Short
