//go:debug asynctimerchan=0

package tcpclv4

// C11, session level ("level B"): two real Clients - contact header, SESS_INIT, established stage with
// keep-alives, message switch over bytes, TransferManager - joined by a simulated byte stream inside a
// synctest bubble. The active client dials through its customStartFunc, which creates the duplex
// stream and the passive client on its other end (as TCPListener does with an accepted socket).
// Traffic is one Send at a time, alternating directions, so that the canonical log is a pure function
// of the seed (the established stage picks between ready channels with Go's random select; with one
// transfer in flight there is never more than one ready). Concurrent bidirectional transfers are the
// business of the message-level harness (internal/utils, level A), where the wire order is seeded.
//
// Faults: byte-granular chunking of every write (1..n bytes), connection reset after k more bytes in
// one direction, a direction that silently stops delivering after k more bytes (stall: only the
// keep-alive logic can notice), idle periods of several keep-alive intervals, Close on either side,
// re-Start of the active client after a loss.
//
// Oracle (statement of C11): a Send that returns nil => the peer's Channel() delivered exactly that
// bundle, exactly once; nothing is delivered that was not sent, nothing twice; on an intact session a
// Send succeeds; after a fault every pending Send returns within a bounded simulated time; an idle
// intact session stays up (keep-alives), a stalled one is torn down and reported as peer-disappeared.

import (
	"bytes"
	"errors"
	"fmt"
	"io"
	"io/ioutil"
	"net"
	"os"
	"runtime"
	"sort"
	"strings"
	"sync"
	"sync/atomic"
	"testing"
	"testing/synctest"
	"time"

	log "github.com/sirupsen/logrus"

	"github.com/dtn7/dtn7-go/pkg/bpv7"
	"github.com/dtn7/dtn7-go/pkg/cla"
	"github.com/dtn7/dtn7-go/pkg/cla/tcpclv4/internal/utils"

	"verif.local/simk"
)

var sessT *testing.T

// half is one direction of the duplex stream.
type half struct {
	ch       chan []byte
	rest     []byte
	sent     int64 // bytes accepted from the writer
	cutAt    int64 // absolute offset after which the connection is reset (-1: never)
	stallAt  int64 // absolute offset after which bytes vanish silently (-1: never)
	rnd      *simk.Rand
	maxChunk int
}

type duplex struct {
	h      [2]*half // h[0]: active -> passive, h[1]: passive -> active
	closed chan struct{}
	once   sync.Once
	reset  int32
	stalled int32 // a stall has begun to swallow bytes
}

func newDuplex(seed uint64, n int, maxChunk int) *duplex {
	d := &duplex{closed: make(chan struct{})}
	for i := range d.h {
		d.h[i] = &half{ch: make(chan []byte, 1<<12), cutAt: -1, stallAt: -1, maxChunk: maxChunk,
			rnd: simk.NewRand(seed, fmt.Sprintf("chunks-%d-%d", n, i))}
	}
	return d
}

func (d *duplex) shut() { d.once.Do(func() { close(d.closed) }) }

type dconn struct {
	d   *duplex
	out int // index of the half this end writes
}

func (c *dconn) Write(p []byte) (int, error) {
	h := c.d.h[c.out]
	select {
	case <-c.d.closed:
		return 0, errors.New("sim: connection reset by peer")
	default:
	}
	n := len(p)
	cut := false
	if h.cutAt >= 0 && h.sent+int64(n) > h.cutAt {
		n = int(h.cutAt - h.sent)
		if n < 0 {
			n = 0
		}
		cut = true
	}
	data := append([]byte(nil), p[:n]...)
	for len(data) > 0 {
		k := 1 + h.rnd.Intn(h.maxChunk)
		if k > len(data) {
			k = len(data)
		}
		if h.stallAt < 0 || h.sent < h.stallAt {
			if h.stallAt >= 0 && h.sent+int64(k) > h.stallAt {
				k = int(h.stallAt - h.sent)
			}
			select {
			case h.ch <- data[:k]:
			case <-c.d.closed:
				return 0, errors.New("sim: connection reset by peer")
			}
		} else {
			atomic.StoreInt32(&c.d.stalled, 1)
		}
		h.sent += int64(k)
		data = data[k:]
	}
	if cut {
		atomic.StoreInt32(&c.d.reset, 1)
		c.d.shut()
		return n, errors.New("sim: connection reset by peer")
	}
	return n, nil
}

func (c *dconn) Read(p []byte) (int, error) {
	h := c.d.h[1-c.out]
	if len(h.rest) == 0 {
		select {
		case b := <-h.ch:
			h.rest = b
		default:
			select {
			case b := <-h.ch:
				h.rest = b
			case <-c.d.closed:
				select {
				case b := <-h.ch:
					h.rest = b
				default:
					return 0, io.EOF
				}
			}
		}
	}
	n := copy(p, h.rest)
	h.rest = h.rest[n:]
	return n, nil
}
func (c *dconn) Close() error                       { c.d.shut(); return nil }
func (c *dconn) LocalAddr() net.Addr                { return sAddr{} }
func (c *dconn) RemoteAddr() net.Addr               { return sAddr{} }
func (c *dconn) SetDeadline(t time.Time) error      { return nil }
func (c *dconn) SetReadDeadline(t time.Time) error  { return nil }
func (c *dconn) SetWriteDeadline(t time.Time) error { return nil }

type sAddr struct{}

func (sAddr) Network() string { return "sim" }
func (sAddr) String() string  { return "sim-peer" }

// endpoint is one Client with what its Channel() reported.
type handedUp struct {
	ptr  *bpv7.Bundle
	then []byte // its encoding at the moment it was handed up
}

type endpoint struct {
	handed   []handedUp
	cl       *Client
	mu       sync.Mutex
	got      [][]byte // encodings of received bundles
	appeared int
	gone     int
}

func (e *endpoint) collect(ch chan cla.ConvergenceStatus, done chan struct{}) {
	for {
		var cs cla.ConvergenceStatus
		select {
		case cs = <-ch:
		case <-done:
			return
		}
		e.mu.Lock()
		switch cs.MessageType {
		case cla.ReceivedBundle:
			var buf bytes.Buffer
			b := cs.Message.(cla.ConvergenceReceivedBundle).Bundle
			_ = b.MarshalCbor(&buf)
			e.got = append(e.got, buf.Bytes())
			// the status carries a pointer: an upper layer that is slower than the link looks at it later
			e.handed = append(e.handed, handedUp{ptr: b, then: buf.Bytes()})
		case cla.PeerAppeared:
			e.appeared++
		case cla.PeerDisappeared:
			e.gone++
		}
		e.mu.Unlock()
	}
}

type sessSim struct {
	handlers []<-chan error
	allDx []*duplex
	done  chan struct{}
	c     *simk.Case
	res   *simk.Result
	lg    *simk.Log
	seed  uint64
	ends  [2]*endpoint // 0 active, 1 passive (current incarnation)
	dx    *duplex
	nDial int
	up    bool // the harness believes the session is intact (no fault since it was established)
	sent  map[string]string // tag -> encoding
	okTo  [2]map[string]bool // Send returned nil for tag, by receiving side
	allGot [2][][]byte        // everything ever received per side (all incarnations)
	allHanded [2][]handedUp
	seq   int
	passiveStartErr error
	passiveStarted  chan struct{}
}

func runSessCase(c *simk.Case) *simk.Result {
	res := &simk.Result{}
	s := &sessSim{c: c, res: res, lg: &simk.Log{}, seed: c.Seed, sent: map[string]string{}}
	s.okTo[0], s.okTo[1] = map[string]bool{}, map[string]bool{}
	log.SetOutput(ioutil.Discard)
	log.SetLevel(log.PanicLevel)
	func() {
		defer func() {
			if r := recover(); r != nil {
				msg := fmt.Sprint(r)
				if !strings.Contains(msg, "blocked goroutines remain") && !strings.Contains(msg, "deadlock: main bubble goroutine has exited") {
					if res.HarnessErr == "" {
						res.HarnessErr = "bubble panic: " + msg
					}
				}
			}
		}()
		synctest.Test(sessT, func(t *testing.T) { s.body() })
	}()
	res.LogHash = s.lg.Hash()
	res.Log = s.lg.Lines
	return res
}

func (s *sessSim) dial(client *Client) error {
	s.nDial++
	s.dx = newDuplex(s.seed, s.nDial, s.c.CfgInt("max_chunk", 64))
	s.allDx = append(s.allDx, s.dx)
	a, p := &dconn{d: s.dx, out: 0}, &dconn{d: s.dx, out: 1}
	client.connCloser = a
	client.messageSwitch = utils.NewMessageSwitchReaderWriter(a, a)
	pc := newClientTCP(p, bpv7.MustNewEndpointID("dtn://passive/"))
	pe := &endpoint{cl: pc}
	s.ends[1] = pe
	s.passiveStarted = make(chan struct{})
	done := s.passiveStarted
	go func() {
		err, _ := pc.Start()
		s.passiveStartErr = err
		if err == nil {
			go pe.collect(pc.Channel(), s.done)
		}
		close(done)
	}()
	return nil
}

// start (re)starts the active client and waits for both sides.
func (s *sessSim) start() bool {
	ac := s.ends[0].cl
	var err error
	fin := make(chan struct{})
	go func() {
		err, _ = ac.Start()
		close(fin)
	}()
	for i := 0; i < 40; i++ {
		synctest.Wait()
		select {
		case <-fin:
			i = 1000
		default:
			time.Sleep(time.Second)
		}
	}
	select {
	case <-fin:
	default:
		s.res.Violate("C11", "session", "session-start-never-returns", "Client.Start of the active side has not returned 40 simulated seconds after dialling (its own limit is 15 s)")
		return false
	}
	if err != nil {
		s.res.Violate("C11", "session", "session-not-established-on-intact-stream", "active Start: %v", err)
		return false
	}
	go s.ends[0].collect(ac.Channel(), s.done)
	synctest.Wait()
	select {
	case <-s.passiveStarted:
	default:
		s.res.Violate("C11", "session", "session-not-established-on-intact-stream", "the active side is established, the passive side's Start has not returned")
		return false
	}
	if s.passiveStartErr != nil {
		s.res.Violate("C11", "session", "session-not-established-on-intact-stream", "passive Start: %v", s.passiveStartErr)
		return false
	}
	s.up = true
	for _, e := range s.ends {
		if e != nil && e.cl.stageHandler != nil {
			s.handlers = append(s.handlers, e.cl.stageHandler.Error())
		}
	}
	for _, e := range s.ends {
		e.mu.Lock()
		e.gone = 0
		e.mu.Unlock()
	}
	s.res.Probe("session_established")
	if got := ac.GetPeerEndpointID().String(); got != "dtn://passive/" {
		s.res.Violate("C11", "session", "wrong-peer-node-id", "active side learned peer %s", got)
	}
	if got := s.ends[1].cl.GetPeerEndpointID().String(); got != "dtn://active/" {
		s.res.Violate("C11", "session", "wrong-peer-node-id", "passive side learned peer %s", got)
	}
	return true
}

func (s *sessSim) harvest() {
	for i, e := range s.ends {
		if e == nil {
			continue
		}
		e.mu.Lock()
		s.allHanded[i] = append(s.allHanded[i], e.handed...)
		e.handed = nil
		s.allGot[i] = append(s.allGot[i], e.got...)
		e.got = nil
		e.mu.Unlock()
	}
}

func (s *sessSim) body() {
	s.done = make(chan struct{}) // (made inside the bubble: a select on a channel from outside is not durably blocked)
	r := simk.NewRand(s.seed, "clock")
	time.Sleep(time.Duration(366+r.Intn(3000))*24*time.Hour + time.Duration(r.Intn(86400000))*time.Millisecond)
	t0 := time.Now()
	ac := &Client{address: "sim-peer", permanent: true, activePeer: true, nodeId: bpv7.MustNewEndpointID("dtn://active/")}
	ac.customStartFunc = s.dial
	s.ends[0] = &endpoint{cl: ac}
	if !s.start() {
		return
	}
	for i, op := range s.c.Ops {
		if len(s.res.Violations) > 0 {
			break
		}
		s.lg.Add("op %d %s", i, op.String())
		s.exec(op)
	}
	s.finish()
	s.res.SimMs = int64(time.Since(t0) / time.Millisecond)
	s.res.Nontrivial = len(s.sent) > 0
}

func (s *sessSim) exec(op simk.Op) {
	switch op.K {
	case "idle":
		time.Sleep(time.Duration(op.N) * time.Millisecond)
		synctest.Wait()
		s.res.Fault("idle_keepalive_periods")
		if s.up {
			for i, e := range s.ends {
				e.mu.Lock()
				gone := e.gone
				e.mu.Unlock()
				if gone > 0 {
					s.res.Violate("C11", "session", "intact-idle-session-torn-down", "side %d reported its peer gone after %d ms of idleness on an intact stream", i, op.N)
				}
			}
		}
	case "cut":
		if s.dx != nil && s.up {
			h := s.dx.h[op.P%2]
			h.cutAt = h.sent + op.N
			s.up = false
			s.res.Fault("stream_cut")
			s.lg.Add("cut dir=%d after %d more bytes", op.P%2, op.N)
		}
	case "stall":
		if s.dx != nil && s.up {
			h := s.dx.h[op.P%2]
			h.stallAt = h.sent + op.N
			s.up = false
			s.res.Fault("stream_stall")
			s.lg.Add("stall dir=%d after %d more bytes", op.P%2, op.N)
		}
	case "close":
		e := s.ends[op.P%2]
		if e != nil && e.cl.transferManager != nil {
			cl := e.cl
			fin := make(chan struct{})
			go func() { _ = cl.Close(); close(fin) }()
			s.await(fin, 60, "close-never-returns", "Client.Close on side %d", op.P%2)
			s.up = false
			s.res.Fault("client_close")
		}
	case "restart":
		// the session is gone: wait for both sides to notice, then start the active side again
		if s.up {
			return
		}
		s.settleLoss()
		s.harvest()
		if s.ends[0].cl.transferManager != nil || s.ends[0].cl.messageSwitch != nil {
			return // the active side has not torn its session down (judged in settleLoss)
		}
		s.res.Probe("restart_after_loss")
		s.start()
	case "send":
		s.send(op)
	}
}

// await advances simulated time until fin is closed.
func (s *sessSim) await(fin chan struct{}, limitS int, sig, format string, a ...interface{}) bool {
	for i := 0; i <= limitS; i++ {
		synctest.Wait()
		select {
		case <-fin:
			return true
		default:
		}
		time.Sleep(time.Second)
	}
	s.res.Violate("C11", "returns", sig, "%s has not returned after %d simulated seconds", fmt.Sprintf(format, a...), limitS)
	return false
}

// settleLoss: after a fault both sides must end their session within the keep-alive horizon.
func (s *sessSim) settleLoss() {
	gone := func() bool {
		select {
		case <-s.dx.closed:
			return true
		default:
			return atomic.LoadInt32(&s.dx.stalled) != 0
		}
	}
	if s.dx == nil || !gone() {
		return // the armed fault has not been reached by the traffic so far: nothing to notice yet
	}
	for i := 0; i < 120; i++ {
		synctest.Wait()
		if s.ends[0].cl.transferManager == nil && (s.ends[1] == nil || s.ends[1].cl.transferManager == nil) {
			return
		}
		time.Sleep(time.Second)
	}
	if os.Getenv("VERIF_DUMP") != "" {
		buf := make([]byte, 1<<20)
		fmt.Fprintf(os.Stderr, "%s\n", buf[:runtime.Stack(buf, true)])
	}
	for i, e := range s.ends {
		if e != nil && e.cl.transferManager != nil {
			s.res.Violate("C11", "session", "lost-session-never-torn-down", "side %d still holds its session 120 simulated seconds after the stream was cut / stalled / closed (keep-alive is 30 s)", i)
		}
	}
}

func (s *sessSim) send(op simk.Op) {
	dir := op.P % 2
	from, to := s.ends[dir], s.ends[1-dir]
	if from == nil || to == nil || from.cl.transferManager == nil {
		return
	}
	s.seq++
	tag := fmt.Sprintf("T%03d", s.seq)
	pay := make([]byte, op.N)
	pr := simk.NewRand(s.seed, "payload"+tag)
	for i := range pay {
		pay[i] = byte(pr.Intn(256))
	}
	copy(pay, tag+"|")
	b, err := bpv7.Builder().CRC(bpv7.CRC32).Source(fmt.Sprintf("dtn://src%d/app", dir)).Destination("dtn://dst/app").
		CreationTimestampTime(time.Unix(1700000000+int64(s.seq), 0)).Lifetime("300000h").PayloadBlock(pay).Build()
	if err != nil {
		s.res.HarnessErr = err.Error()
		return
	}
	var buf bytes.Buffer
	_ = b.MarshalCbor(&buf)
	s.sent[tag] = string(buf.Bytes())
	intact := s.up
	var sendErr error
	fin := make(chan struct{})
	cl := from.cl
	go func() {
		defer func() {
			if r := recover(); r != nil {
				sendErr = fmt.Errorf("panic: %v", r)
			}
			close(fin)
		}()
		sendErr = cl.Send(b)
	}()
	if !s.await(fin, 180, "send-never-returns", "Client.Send of %s (%d bytes, direction %d)", tag, buf.Len(), dir) {
		return
	}
	synctest.Wait()
	s.harvest()
	n := 0
	for _, g := range s.allGot[1-dir] {
		if string(g) == s.sent[tag] {
			n++
		}
	}
	if sendErr == nil {
		s.lg.Add("send %s dir=%d len=%d intact=%v -> ok delivered=%d", tag, dir, buf.Len(), intact, n)
	} else {
		// whether a failed transfer still reached the peer's channel is decided by Client.handle's select
		// between the incoming bundle and the error of the dying session (Go picks at random): not logged
		s.lg.Add("send %s dir=%d len=%d intact=%v -> error", tag, dir, buf.Len(), intact)
	}
	s.res.Probe("send_returned")
	if sendErr == nil {
		s.okTo[1-dir][tag] = true
		s.res.Probe("send_ok")
		if n == 0 {
			s.res.Violate("C11", "success-means-delivered", "send-succeeded-but-peer-has-no-bundle", "Send of %s (%d bytes, direction %d) returned nil but the peer's channel never delivered it", tag, buf.Len(), dir)
		}
	} else {
		s.res.Probe("send_failed")
		if intact {
			s.res.Violate("C11", "delivers", "send-fails-on-intact-session", "Send of %s (%d bytes, direction %d) on an intact session: %v", tag, buf.Len(), dir, sendErr)
		}
		if strings.HasPrefix(sendErr.Error(), "panic:") {
			s.res.Violate("C11", "returns", "send-panics", "%v", sendErr)
		}
	}
	if buf.Len() > 1<<20 {
		s.res.Probe("bundle_larger_than_segment_mru")
	}
}

func (s *sessSim) finish() {
	synctest.Wait()
	s.harvest()
	// nothing delivered that was not sent, nothing twice, on either side
	valid := map[string]string{}
	for t, e := range s.sent {
		valid[e] = t
	}
	for side := 0; side < 2; side++ {
		count := map[string]int{}
		for _, g := range s.allGot[side] {
			t, ok := valid[string(g)]
			if !ok {
				s.res.Violate("C11", "exact-bundle", "peer-delivered-a-bundle-that-was-not-sent", "side %d handed up a bundle of %d bytes that equals none of the bundles sent", side, len(g))
				continue
			}
			count[t]++
		}
		var tags []string
		for t := range count {
			tags = append(tags, t)
		}
		sort.Strings(tags)
		for _, t := range tags {
			if count[t] > 1 {
				s.res.Violate("C11", "exactly-one", "bundle-delivered-twice", "side %d handed up %s %d times", side, t, count[t])
			}
		}
	}
	// a bundle that was handed up stays what it was (the CLA must not reuse the object for the next one)
	for side := 0; side < 2; side++ {
		for i, h := range s.allHanded[side] {
			var buf bytes.Buffer
			_ = h.ptr.MarshalCbor(&buf)
			if !bytes.Equal(buf.Bytes(), h.then) {
				s.res.Violate("C11", "exact-bundle", "handed-up-bundle-overwritten-by-a-later-one", "side %d: the %d-th bundle handed up (%s) reads as %s at the end of the run", side, i, valid[string(h.then)], valid[string(buf.Bytes())])
				break
			}
		}
	}
	// tear down
	for _, e := range s.ends {
		if e != nil && e.cl.transferManager != nil {
			cl := e.cl
			go func() {
				defer func() { _ = recover() }()
				_ = cl.Close()
			}()
		}
	}
	for i := 0; i < 5; i++ {
		synctest.Wait()
		time.Sleep(time.Second)
	}
	// nothing of this run stays blocked in the dead bubble (a leaked reader keeps its stream buffers alive)
	for _, d := range s.allDx {
		d.shut()
	}
	close(s.done)
	// a stage handler whose client went away first stays blocked on its unread error channel for ever, with the
	// whole session state (queued megabyte segments) behind it: read what is left so that it can end
	for _, ec := range s.handlers {
		ec := ec
		go func() {
			for range ec {
			}
		}()
	}
	for i := 0; i < 3; i++ {
		synctest.Wait()
		time.Sleep(20 * time.Second)
	}
}

func genSessCase(seed uint64, tier, focus, variant string) *simk.Case {
	r := simk.NewRand(seed, "script")
	c := &simk.Case{Harness: "tcpcl-session", Seed: seed, Cfg: map[string]interface{}{"max_chunk": r.Pick(1, 7, 64, 1500, 65536)}}
	sizes := []int64{0, 1, 30, 100, 1000, 70000}
	big := []int64{1<<20 - 200, 1<<20 - 64, 1 << 20, 1<<20 + 1, 2<<20 + 17}
	n := r.Range(3, 14)
	for i := 0; i < n; i++ {
		switch x := r.Intn(100); {
		case x < 55:
			sz := sizes[r.Intn(len(sizes))]
			if r.Bool(0.06) {
				sz = big[r.Intn(len(big))]
				c.Cfg["max_chunk"] = 65536
			}
			c.Ops = append(c.Ops, simk.Op{K: "send", P: r.Intn(2), N: sz})
		case x < 67:
			c.Ops = append(c.Ops, simk.Op{K: "idle", N: int64(r.Pick(1000, 16000, 31000, 95000, 400000))})
		case x < 77:
			c.Ops = append(c.Ops, simk.Op{K: "cut", P: r.Intn(2), N: int64(r.Pick(0, 1, 5, 20, 60, 150, 1000))},
				simk.Op{K: "send", P: r.Intn(2), N: sizes[r.Intn(len(sizes))]}, simk.Op{K: "restart"})
		case x < 86:
			c.Ops = append(c.Ops, simk.Op{K: "stall", P: r.Intn(2), N: int64(r.Pick(0, 1, 5, 20, 60, 150, 1000))},
				simk.Op{K: "send", P: r.Intn(2), N: sizes[r.Intn(len(sizes))]}, simk.Op{K: "restart"})
		case x < 93:
			c.Ops = append(c.Ops, simk.Op{K: "close", P: r.Intn(2)}, simk.Op{K: "restart"})
		default:
			c.Ops = append(c.Ops, simk.Op{K: "restart"})
		}
	}
	return c
}

func TestSimWorker(t *testing.T) {
	if os.Getenv("VERIF_HARNESS") == "" {
		t.Skip("simulation worker: set VERIF_HARNESS")
	}
	sessT = t
	os.Exit(simk.WorkerMain([]*simk.Harness{{Name: "tcpcl-session", Gen: genSessCase, Run: runSessCase}}))
}
