//go:debug asynctimerchan=0

package mtcp

// C12 (MTCP): the real MTCPClient (Send, keep-alive handler) and the real server connection
// handler on a simulated TCP-like stream with seeded chunking and a cut at an arbitrary byte
// offset (DESIGN.md §4 C12).

import (
	"bytes"
	"errors"
	"fmt"
	"io"
	"io/ioutil"
	"net"
	"os"
	"strings"
	"sync"
	"testing"
	"testing/synctest"
	"time"

	log "github.com/sirupsen/logrus"

	"github.com/dtn7/dtn7-go/pkg/bpv7"
	"github.com/dtn7/dtn7-go/pkg/cla"

	"verif.local/simk"
)

var simT *testing.T

// simStream is one direction of a TCP-like connection: no loss, duplication or reordering; the
// reader gets the bytes in seeded chunk sizes; after cutAt bytes the connection is broken.
type simStream struct {
	mu       sync.Mutex
	ch       chan []byte
	rest     []byte
	broken   bool
	closed   chan struct{}
	once     sync.Once
	sent     int
	cutAt    int // -1: never
	rnd      *simk.Rand
	maxChunk int
	onCut    func()
	fin       bool // the reading side closed cleanly
	finWrites int
}

func (s *simStream) write(p []byte) (int, error) {
	s.mu.Lock()
	defer s.mu.Unlock()
	if s.broken {
		return 0, errors.New("sim: connection reset by peer")
	}
	if s.fin {
		// the peer has closed its socket cleanly after reading everything (FIN): like TCP, the first write
		// afterwards still succeeds locally (its bytes are answered with a reset), every later one fails
		s.finWrites++
		if s.finWrites == 1 {
			return len(p), nil
		}
		s.broken = true
		return 0, errors.New("sim: broken pipe")
	}
	n := len(p)
	cut := false
	if s.cutAt >= 0 && s.sent+n > s.cutAt {
		n = s.cutAt - s.sent
		if n < 0 {
			n = 0
		}
		cut = true
	}
	data := append([]byte(nil), p[:n]...)
	s.sent += n
	for len(data) > 0 {
		k := 1 + s.rnd.Intn(s.maxChunk)
		if k > len(data) {
			k = len(data)
		}
		s.ch <- data[:k]
		data = data[k:]
	}
	if cut {
		s.broken = true
		s.once.Do(func() { close(s.closed) })
		if s.onCut != nil {
			s.onCut()
		}
		return n, errors.New("sim: connection reset by peer")
	}
	return n, nil
}

func (s *simStream) read(p []byte) (int, error) {
	if len(s.rest) == 0 {
		select {
		case c := <-s.ch:
			s.rest = c
		default:
			select {
			case c := <-s.ch:
				s.rest = c
			case <-s.closed:
				// deliver what is still queued before reporting the end
				select {
				case c := <-s.ch:
					s.rest = c
				default:
					return 0, io.EOF
				}
			}
		}
	}
	n := copy(p, s.rest)
	s.rest = s.rest[n:]
	return n, nil
}

type simAddr struct{}

func (simAddr) Network() string { return "sim" }
func (simAddr) String() string  { return "sim" }

// simConn: the client's end writes into up, the server's end reads from it.
type simConn struct {
	up     *simStream
	writer bool
}

func (c *simConn) Read(p []byte) (int, error) {
	if c.writer {
		<-c.up.closed // the server never writes
		return 0, io.EOF
	}
	return c.up.read(p)
}
func (c *simConn) Write(p []byte) (int, error) {
	if !c.writer {
		return 0, errors.New("sim: server side does not write")
	}
	return c.up.write(p)
}
func (c *simConn) Close() error {
	c.up.mu.Lock()
	if !c.up.fin || c.writer {
		c.up.broken = true // (after a clean close by the reading side the writer's next write still succeeds: see write)
	}
	c.up.mu.Unlock()
	c.up.once.Do(func() { close(c.up.closed) })
	return nil
}
func (c *simConn) LocalAddr() net.Addr                { return simAddr{} }
func (c *simConn) RemoteAddr() net.Addr               { return simAddr{} }
func (c *simConn) SetDeadline(t time.Time) error      { return nil }
func (c *simConn) SetReadDeadline(t time.Time) error  { return nil }
func (c *simConn) SetWriteDeadline(t time.Time) error { return nil }

type mtcpSim struct {
	c    *simk.Case
	res  *simk.Result
	lg   *simk.Log
	seed uint64
}

func runMtcpCase(c *simk.Case) *simk.Result {
	res := &simk.Result{}
	s := &mtcpSim{c: c, res: res, lg: &simk.Log{}, seed: c.Seed}
	log.SetOutput(ioutil.Discard)
	log.SetLevel(log.PanicLevel)
	func() {
		defer func() {
			if r := recover(); r != nil {
				msg := fmt.Sprint(r)
				if !strings.Contains(msg, "blocked goroutines remain") && !strings.Contains(msg, "deadlock: main bubble goroutine has exited") {
					if res.HarnessErr == "" {
						res.HarnessErr = "bubble panic: " + msg
					}
				}
			}
		}()
		synctest.Test(simT, func(t *testing.T) { s.body() })
	}()
	res.LogHash = s.lg.Hash()
	res.Log = s.lg.Lines
	return res
}

func (s *mtcpSim) body() {
	time.Sleep(700 * 24 * time.Hour)
	t0 := time.Now()
	r := simk.NewRand(s.seed, "chunks")
	up := &simStream{ch: make(chan []byte, 1<<16), closed: make(chan struct{}), cutAt: s.c.CfgInt("cut_at", -1), rnd: r, maxChunk: s.c.CfgInt("max_chunk", 64)}
	cutHappened := false
	var cutTime time.Time
	up.onCut = func() { cutHappened = true; cutTime = time.Now() }
	peer := bpv7.MustNewEndpointID("dtn://srv/")
	client := &MTCPClient{conn: &simConn{up: up, writer: true}, peer: peer, address: "sim:1", permanent: false,
		reportChan: make(chan cla.ConvergenceStatus), stopSyn: make(chan struct{}), stopAck: make(chan struct{})}
	serv := NewMTCPServer("sim:1", peer, false)
	var mu sync.Mutex
	var received [][]byte
	var clientMsgs []cla.ConvergenceMessageType
	var otherServerMsgs int
	var gateMu sync.Mutex
	var gate chan struct{} // non-nil: the consumer of the server's channel is busy elsewhere until it is closed
	go func() {
		for {
			gateMu.Lock()
			g := gate
			gateMu.Unlock()
			if g != nil {
				<-g
			}
			cs, ok := <-serv.reportChan
			if !ok {
				return
			}
			if cs.MessageType == cla.ReceivedBundle {
				var buf bytes.Buffer
				_ = cs.Message.(cla.ConvergenceReceivedBundle).Bundle.MarshalCbor(&buf)
				mu.Lock()
				received = append(received, buf.Bytes())
				mu.Unlock()
			} else {
				mu.Lock()
				otherServerMsgs++
				mu.Unlock()
			}
		}
	}()
	go func() {
		for cs := range client.reportChan {
			mu.Lock()
			clientMsgs = append(clientMsgs, cs.MessageType)
			mu.Unlock()
		}
	}()
	go client.handler()
	go serv.handleSender(&simConn{up: up})
	synctest.Wait()

	type sent struct {
		wire      []byte
		err       error
		afterCut  bool
		returned  bool
	}
	var sends []*sent
	seq := 0
	for i, op := range s.c.Ops {
		s.lg.Add("op %d %s", i, op.String())
		switch op.K {
		case "advance":
			time.Sleep(time.Duration(op.N)*time.Millisecond + 137*time.Microsecond)
			synctest.Wait()
		case "send_burst":
			// several bundles back to back, no pause in between: they reach the server as one burst
			var batch []*sent
			var bundles []bpv7.Bundle
			for k := 0; k < int(op.N); k++ {
				seq++
				pay := []byte(fmt.Sprintf("M%03d|burst", seq))
				b, err := bpv7.Builder().CRC(bpv7.CRC32).Source("dtn://cli/a").Destination("dtn://srv/b").CreationTimestampNow().Lifetime("1h").PayloadBlock(pay).Build()
				if err != nil {
					s.res.HarnessErr = err.Error()
					return
				}
				b.PrimaryBlock.CreationTimestamp[1] = uint64(seq)
				var buf bytes.Buffer
				_ = b.MarshalCbor(&buf)
				st := &sent{wire: buf.Bytes(), afterCut: cutHappened}
				sends = append(sends, st)
				batch = append(batch, st)
				bundles = append(bundles, b)
			}
			go func() {
				for k, b := range bundles {
					batch[k].err = client.Send(b)
					batch[k].returned = true
				}
			}()
			synctest.Wait()
			for k, st := range batch {
				if !st.returned {
					s.res.Violate("C12", "send-returns", "mtcp-send-does-not-return", "Send %d of a burst of %d did not return", k, len(batch))
					break
				}
			}
		case "hold":
			// the node above the server is slow: it stops taking bundles from the server's channel ...
			gateMu.Lock()
			if gate == nil {
				gate = make(chan struct{})
				s.res.Fault("slow_consumer")
			}
			gateMu.Unlock()
			synctest.Wait()
		case "release":
			// ... and comes back: what piled up must come out in the order it was sent
			gateMu.Lock()
			if gate != nil {
				close(gate)
				gate = nil
			}
			gateMu.Unlock()
			synctest.Wait()
		case "peer_close":
			// the server closes the connection after having consumed everything sent so far
			synctest.Wait()
			up.mu.Lock()
			if !up.fin && !up.broken {
				up.fin = true
				up.once.Do(func() { close(up.closed) })
				cutHappened, cutTime = true, time.Now()
				s.res.Fault("peer_clean_close")
			}
			up.mu.Unlock()
			synctest.Wait()
		case "send":
			seq++
			pay := []byte(fmt.Sprintf("M%03d|", seq))
			for len(pay) < int(op.N) {
				pay = append(pay, byte('a'+len(pay)%26))
			}
			b, err := bpv7.Builder().CRC(bpv7.CRCType(op.M)).Source("dtn://cli/a").Destination("dtn://srv/b").CreationTimestampNow().Lifetime("1h").PayloadBlock(pay).Build()
			if err != nil {
				s.res.HarnessErr = err.Error()
				return
			}
			b.PrimaryBlock.CreationTimestamp[1] = uint64(seq)
			var buf bytes.Buffer
			_ = b.MarshalCbor(&buf)
			st := &sent{wire: buf.Bytes(), afterCut: cutHappened}
			sends = append(sends, st)
			go func() { st.err = client.Send(b); st.returned = true }()
			synctest.Wait()
			if !st.returned {
				s.res.Violate("C12", "send-returns", "mtcp-send-does-not-return", "Send %d did not return", seq)
			}
		}
	}
	gateMu.Lock()
	if gate != nil {
		close(gate)
		gate = nil
	}
	gateMu.Unlock()
	synctest.Wait()
	mu.Lock()
	defer mu.Unlock()
	// the server's channel carries exactly a prefix of what was sent, in order, identical
	if len(received) > len(sends) {
		s.res.Violate("C12", "mtcp-prefix", "server-reports-more-bundles-than-sent", "%d received, %d sent", len(received), len(sends))
	}
	for i := range received {
		if i < len(sends) && !bytes.Equal(received[i], sends[i].wire) {
			s.res.Violate("C12", "mtcp-prefix", "server-reports-a-different-or-reordered-bundle", "bundle %d on the server's channel differs from the %d-th bundle sent", i, i)
			break
		}
	}
	if otherServerMsgs > 0 {
		s.res.Violate("C12", "keepalive-invisible", "server-reports-non-bundle-message", "%d status messages other than received bundles (keep-alives must be invisible)", otherServerMsgs)
	}
	if !cutHappened && up.cutAt < 0 {
		s.res.Probe("clean_connection")
		if len(received) != len(sends) {
			s.res.Violate("C12", "mtcp-all", "bundle-lost-on-intact-connection", "%d sent, %d arrived", len(sends), len(received))
		}
		for i, st := range sends {
			if st.err != nil {
				s.res.Violate("C12", "mtcp-all", "send-fails-on-intact-connection", "send %d: %v", i, st.err)
			}
		}
	}
	gone := 0
	for _, m := range clientMsgs {
		if m == cla.PeerDisappeared {
			gone++
		}
	}
	for i, st := range sends {
		if st.afterCut {
			s.res.Probe("send_after_cut")
			if st.err == nil {
				s.res.Violate("C12", "broken-connection-errors", "send-on-broken-connection-succeeds", "send %d was invoked after the connection broke (at byte %d) and returned nil", i, up.cutAt)
			}
		}
	}
	if cutHappened {
		s.res.Fault("stream_cut")
		failed := 0
		for _, st := range sends {
			if st.err != nil {
				failed++
			}
		}
		if failed > 0 && gone == 0 {
			s.res.Violate("C12", "broken-connection-errors", "failed-send-without-peer-disappeared", "%d sends failed but the client never reported the peer as gone", failed)
		}
	}
	_ = cutTime
	s.lg.Add("sent=%d received=%d gone=%d cut=%v", len(sends), len(received), gone, cutHappened)
	s.res.Steps = len(s.c.Ops)
	s.res.SimMs = int64(time.Since(t0) / time.Millisecond)
	s.res.Nontrivial = len(sends) > 0
	go func() { _ = client.Close() }()
	synctest.Wait()
}

func genMtcpCase(seed uint64, tier, focus, variant string) *simk.Case {
	r := simk.NewRand(seed, "script")
	c := &simk.Case{Harness: "mtcp", Seed: seed, Cfg: map[string]interface{}{}}
	c.Cfg["max_chunk"] = r.Pick(1, 2, 7, 64, 4096)
	n := r.Range(1, 20)
	total := 0
	for i := 0; i < n; i++ {
		if r.Bool(0.35) {
			c.Ops = append(c.Ops, simk.Op{K: "advance", N: int64(r.Pick(100, 2500, 5000, 5100, 12000))})
		}
		pl := r.Pick(1, 10, 100, 300, 2000)
		total += pl + 80
		c.Ops = append(c.Ops, simk.Op{K: "send", N: int64(pl), M: int64(r.Pick(0, 1, 2))})
	}
	c.Cfg["cut_at"] = -1
	if r.Bool(0.6) {
		c.Cfg["cut_at"] = r.Range(0, total)
	}
	if rb := simk.NewRand(seed, "burst"); rb.Bool(0.3) {
		// a slow consumer above the server, a burst of bundles meanwhile, then the consumer comes back
		at := rb.Intn(len(c.Ops) + 1)
		ops := append([]simk.Op(nil), c.Ops[:at]...)
		ops = append(ops, simk.Op{K: "hold"}, simk.Op{K: "send_burst", N: int64(rb.Range(2, 12))}, simk.Op{K: "release"})
		c.Ops = append(ops, c.Ops[at:]...)
	}
	if rf := simk.NewRand(seed, "fin"); rf.Bool(0.25) {
		// instead of a reset in mid-stream: the server closes cleanly between two operations
		c.Cfg["cut_at"] = -1
		at := rf.Intn(len(c.Ops) + 1)
		ops := append([]simk.Op(nil), c.Ops[:at]...)
		ops = append(ops, simk.Op{K: "peer_close"})
		c.Ops = append(ops, c.Ops[at:]...)
	}
	return c
}

func TestSimWorker(t *testing.T) {
	if os.Getenv("VERIF_HARNESS") == "" {
		t.Skip("simulation worker: set VERIF_HARNESS")
	}
	simT = t
	os.Exit(simk.WorkerMain([]*simk.Harness{{Name: "mtcp", Gen: genMtcpCase, Run: runMtcpCase}, {Name: "crc", Gen: genCrcCase, Run: runCrcCase},
		{Name: "dec-mtcp", Gen: genDecCase, Run: runDecCase}}))
}
