package mtcp

// C03: block CRCs on a corrupting link. A fully CRC-protected bundle travels from the real
// serialiser over a simulated MTCP stream into the real server connection handler; every single
// bit of the bundle's encoding is flipped in turn (exhaustive per bundle), plus seeded bursts no
// longer than the CRC width. Acceptance is judged by an independent CRC computation over
// independently delimited block bytes (simk.BlockCRC). DESIGN.md §4 C03.

import (
	"bytes"
	"fmt"
	"io/ioutil"
	"strings"
	"testing"
	"testing/synctest"
	"time"

	log "github.com/sirupsen/logrus"

	"github.com/dtn7/cboring"

	"github.com/dtn7/dtn7-go/pkg/bpv7"
	"github.com/dtn7/dtn7-go/pkg/cla"

	"verif.local/simk"
)

type crcSim struct {
	c   *simk.Case
	res *simk.Result
	lg  *simk.Log
}

func runCrcCase(c *simk.Case) *simk.Result {
	res := &simk.Result{}
	s := &crcSim{c: c, res: res, lg: &simk.Log{}}
	log.SetOutput(ioutil.Discard)
	log.SetLevel(log.PanicLevel)
	func() {
		defer func() {
			if r := recover(); r != nil {
				msg := fmt.Sprint(r)
				if !strings.Contains(msg, "blocked goroutines remain") && !strings.Contains(msg, "deadlock: main bubble goroutine has exited") {
					if res.HarnessErr == "" {
						res.HarnessErr = "bubble panic: " + msg
					}
				}
			}
		}()
		synctest.Test(simT, func(t *testing.T) { s.body() })
	}()
	res.LogHash = s.lg.Hash()
	res.Log = s.lg.Lines
	return res
}

// throughLink sends the framed bytes over a fresh simulated connection into the real server
// handler and returns the encodings of whatever it hands up.
func throughLink(frame []byte, rnd *simk.Rand) [][]byte {
	up := &simStream{ch: make(chan []byte, len(frame)+8), closed: make(chan struct{}), cutAt: -1, rnd: rnd, maxChunk: 97}
	serv := NewMTCPServer("sim:1", bpv7.MustNewEndpointID("dtn://srv/"), false)
	serv.reportChan = make(chan cla.ConvergenceStatus, 8)
	_, _ = up.write(frame)
	up.once.Do(func() { close(up.closed) })
	serv.handleSender(&simConn{up: up})
	var out [][]byte
	for {
		select {
		case cs := <-serv.reportChan:
			if cs.MessageType == cla.ReceivedBundle {
				var buf bytes.Buffer
				_ = cs.Message.(cla.ConvergenceReceivedBundle).Bundle.MarshalCbor(&buf)
				out = append(out, buf.Bytes())
			}
			continue
		default:
		}
		return out
	}
}

func (s *crcSim) body() {
	time.Sleep(800 * 24 * time.Hour)
	t0 := time.Now()
	c := s.c
	r := simk.NewRand(c.Seed, "data")
	// a bundle with a CRC on every block
	bld := bpv7.Builder().CRC(bpv7.CRC32)
	if c.CfgB("ipn") {
		bld.Source("ipn:23.42").Destination("ipn:1.1")
	} else {
		bld.Source("dtn://src/a").Destination("dtn://dst/b")
	}
	// report-to: the builder's default (the source), the null endpoint (common in practice; its scheme-specific part is
	// an integer the parser does not interpret), or another endpoint
	switch re := simk.NewRand(c.Seed, "report-to"); re.Intn(5) {
	case 0, 1:
		bld.ReportTo("dtn:none")
	case 2:
		bld.ReportTo("dtn://rep/x")
	}
	bld.CreationTimestampNow().Lifetime("1h")
	if c.CfgB("hop") {
		bld.HopCountBlock(r.Range(1, 200))
	}
	if c.CfgB("age") {
		bld.BundleAgeBlock(uint64(r.Range(0, 100000)))
	}
	if c.CfgB("prev") {
		bld.PreviousNodeBlock("dtn://prev/")
	}
	if c.CfgB("unknown") {
		bld.Canonical(bpv7.NewGenericExtensionBlock(bytes.Repeat([]byte{0x5a}, r.Range(0, 30)), 222), bpv7.BlockControlFlags(0))
	}
	pay := make([]byte, c.CfgInt("pay", 32))
	for i := range pay {
		pay[i] = byte(r.Intn(256))
	}
	bld.PayloadBlock(pay)
	b, err := bld.Build()
	if err != nil {
		s.res.HarnessErr = err.Error()
		return
	}
	// CRC type per block from the seed (16 or 32; the primary block as well)
	if r.Bool(0.5) {
		b.PrimaryBlock.SetCRCType(bpv7.CRC16)
	}
	for i := range b.CanonicalBlocks {
		if r.Bool(0.5) {
			b.CanonicalBlocks[i].SetCRCType(bpv7.CRC16)
		}
	}
	if c.CfgB("frag") {
		b.PrimaryBlock.BundleControlFlags |= bpv7.IsFragment
		b.PrimaryBlock.FragmentOffset = uint64(r.Range(0, 1000))
		b.PrimaryBlock.TotalDataLength = b.PrimaryBlock.FragmentOffset + uint64(len(pay)) + uint64(r.Range(0, 1000))
	}
	var buf bytes.Buffer
	if err := b.MarshalCbor(&buf); err != nil {
		s.res.HarnessErr = err.Error()
		return
	}
	wire := buf.Bytes()
	n := len(wire)
	// (ii) the serialiser writes the right CRC on every block, the primary block always has one
	blocks, err := simk.SplitBundleBlocks(wire)
	if err != nil {
		s.res.Violate("C03", "serialiser", "serialised-bundle-not-delimitable", "%v", err)
		return
	}
	for i, raw := range blocks {
		decl, ok, err := simk.BlockCRC(raw, i == 0)
		if err != nil || !ok {
			s.res.Violate("C03", "serialiser", "serialiser-writes-wrong-crc", "block %d: declared type %d, ok=%v err=%v", i, decl, ok, err)
		}
		if decl == 0 {
			s.res.Violate("C03", "serialiser", "block-without-crc-in-protected-bundle", "block %d carries no CRC (primary=%v)", i, i == 0)
		}
	}
	// a builder told to use no CRC must still protect the primary block
	if nb, err := bpv7.Builder().CRC(bpv7.CRCNo).Source("dtn://src/a").Destination("dtn://dst/b").CreationTimestampNow().Lifetime("1h").PayloadBlock(pay).Build(); err == nil {
		var nbuf bytes.Buffer
		_ = nb.MarshalCbor(&nbuf)
		if bl, err := simk.SplitBundleBlocks(nbuf.Bytes()); err == nil && len(bl) > 0 {
			if decl, ok, err := simk.BlockCRC(bl[0], true); err != nil || decl == 0 || !ok {
				s.res.Violate("C03", "serialiser", "primary-block-without-valid-crc", "CRC(none) builder: primary block declared type %d ok=%v err=%v", decl, ok, err)
			}
		}
	}
	frameFor := func(body []byte) []byte {
		var f bytes.Buffer
		_ = cboring.WriteByteStringLen(uint64(len(body)), &f)
		f.Write(body)
		return f.Bytes()
	}
	rnd := simk.NewRand(c.Seed, "chunks")
	// the clean bundle arrives
	if got := throughLink(frameFor(wire), rnd); len(got) != 1 || !bytes.Equal(got[0], wire) {
		s.res.Violate("C03", "clean", "clean-bundle-not-delivered", "the uncorrupted bundle was handed up %d times", len(got))
	}
	// (i) every single-bit flip
	judge := func(kind string, mut []byte, detail string) {
		got := throughLink(frameFor(mut), rnd)
		if len(got) == 0 {
			return
		}
		// accepted: was that justified by the received bytes?
		bl, derr := simk.SplitBundleBlocks(mut)
		allOK := derr == nil
		if derr == nil {
			for i, raw := range bl {
				if _, ok, err := simk.BlockCRC(raw, i == 0); err != nil || !ok {
					allOK = false
				}
			}
		}
		if kind == "bit" || (derr == nil && len(bl) == len(blocks) && sameLengths(bl, blocks)) {
			if !allOK || kind == "bit" {
				s.res.Violate("C03", "mismatch-rejected", "corrupted-bundle-accepted/"+kind, "%s: the receiver handed up a bundle; independent check: delimitable=%v all declared CRCs match=%v", detail, derr == nil, allOK)
			}
		}
		for _, g := range got {
			if !bytes.Equal(g, wire) && kind == "bit" {
				s.res.Probe("accepted_bundle_differs")
			}
		}
	}
	for bit := 0; bit < 8*n; bit++ {
		mut := append([]byte(nil), wire...)
		mut[bit/8] ^= 1 << uint(bit%8)
		judge("bit", mut, fmt.Sprintf("bit %d of %d (byte 0x%02x -> 0x%02x)", bit, 8*n, wire[bit/8], mut[bit/8]))
	}
	s.res.Fault("bit_flip")
	// seeded bursts up to 16 / 32 bits at seeded starts
	fr := simk.NewRand(c.Seed, "fault")
	for k := 0; k < c.CfgInt("bursts", 200); k++ {
		width := fr.Pick(16, 32)
		start := fr.Intn(8*n - width)
		mut := append([]byte(nil), wire...)
		changed := false
		for j := 0; j < width; j++ {
			if j == 0 || j == width-1 || fr.Bool(0.5) {
				mut[(start+j)/8] ^= 1 << uint((start+j)%8)
				changed = true
			}
		}
		if changed {
			// a burst of w bits is only guaranteed to be caught by a CRC of width >= w
			blk := blockAt(blocks, wire, start/8)
			if blk >= 0 {
				decl, _, _ := simk.BlockCRC(blocks[blk], blk == 0)
				if (decl == 1 && width > 16) || blockAt(blocks, wire, (start+width-1)/8) != blk {
					continue
				}
			}
			judge("burst", mut, fmt.Sprintf("burst of up to %d bits at bit %d", width, start))
		}
	}
	s.res.Fault("burst")
	s.lg.Add("n=%d blocks=%d", n, len(blocks))
	s.res.Steps = 8 * n
	s.res.SimMs = int64(time.Since(t0) / time.Millisecond)
	s.res.Nontrivial = true
}

func sameLengths(a, b [][]byte) bool {
	for i := range a {
		if len(a[i]) != len(b[i]) {
			return false
		}
	}
	return true
}

// blockAt: index of the block containing byte offset off of wire, -1 for framing bytes.
func blockAt(blocks [][]byte, wire []byte, off int) int {
	pos := 1
	for i, b := range blocks {
		if off >= pos && off < pos+len(b) {
			return i
		}
		pos += len(b)
	}
	return -1
}

func genCrcCase(seed uint64, tier, focus, variant string) *simk.Case {
	r := simk.NewRand(seed, "script")
	c := &simk.Case{Harness: "crc", Seed: seed, Cfg: map[string]interface{}{}}
	c.Cfg["ipn"] = r.Bool(0.3)
	c.Cfg["hop"] = r.Bool(0.5)
	c.Cfg["age"] = r.Bool(0.5)
	c.Cfg["prev"] = r.Bool(0.5)
	c.Cfg["unknown"] = r.Bool(0.4)
	c.Cfg["frag"] = r.Bool(0.3)
	c.Cfg["pay"] = r.Pick(0, 1, 23, 24, 60, 255, 256, 300)
	if tier == "thorough" && r.Bool(0.2) {
		c.Cfg["pay"] = r.Range(300, 2048)
	}
	c.Cfg["bursts"] = 200
	return c
}
