package mtcp

// C04 (MTCP framing and the bundle decoder behind it): a well-formed stream of frames from a
// simulated peer is cut at EVERY byte offset, stalled after every length/count header (the peer
// declares, then never sends), and every length/count header is set to each boundary value in turn.
// Oracle: the connection handler returns (or is durably blocked on the stream), no panic escapes,
// what it hands up is a prefix of what was sent, and it does not allocate in proportion to a
// declared length whose bytes never arrived. DESIGN.md §4 C04 (partial claim).

import (
	"bytes"
	"fmt"
	"io/ioutil"
	"runtime"
	"strings"
	"testing"
	"testing/synctest"
	"time"

	log "github.com/sirupsen/logrus"

	"github.com/dtn7/cboring"

	"github.com/dtn7/dtn7-go/pkg/bpv7"
	"github.com/dtn7/dtn7-go/pkg/cla"

	"verif.local/simk"
)

type decSim struct {
	c   *simk.Case
	res *simk.Result
	lg  *simk.Log
}

func runDecCase(c *simk.Case) *simk.Result {
	res := &simk.Result{}
	s := &decSim{c: c, res: res, lg: &simk.Log{}}
	log.SetOutput(ioutil.Discard)
	log.SetLevel(log.PanicLevel)
	func() {
		defer func() {
			if r := recover(); r != nil {
				msg := fmt.Sprint(r)
				if !strings.Contains(msg, "blocked goroutines remain") && !strings.Contains(msg, "deadlock: main bubble goroutine has exited") {
					if res.HarnessErr == "" {
						res.HarnessErr = "bubble panic: " + msg
					}
				}
			}
		}()
		synctest.Test(simT, func(t *testing.T) { s.body() })
	}()
	res.LogHash = s.lg.Hash()
	res.Log = s.lg.Lines
	return res
}

type decOutcome struct {
	returned  bool
	handedUp  [][]byte
	allocated uint64
	panicked  string
	again     func() *decOutcome
}

// feed runs the real connection handler on data; with keepOpen the stream stays open afterwards
// (the peer stalls) and is closed only after the quiescence check.
func feed(data []byte, keepOpen bool, rnd *simk.Rand) *decOutcome {
	out := &decOutcome{}
	out.again = func() *decOutcome { return feed(data, keepOpen, rnd) }
	up := &simStream{ch: make(chan []byte, len(data)+8), closed: make(chan struct{}), cutAt: -1, rnd: rnd, maxChunk: 61}
	serv := NewMTCPServer("sim:1", bpv7.MustNewEndpointID("dtn://srv/"), false)
	serv.reportChan = make(chan cla.ConvergenceStatus, 16)
	_, _ = up.write(data)
	if !keepOpen {
		up.once.Do(func() { close(up.closed) })
	}
	var m0, m1 runtime.MemStats
	runtime.ReadMemStats(&m0)
	go func() {
		defer func() {
			if r := recover(); r != nil {
				out.panicked = fmt.Sprint(r)
			}
			out.returned = true
		}()
		serv.handleSender(&simConn{up: up})
	}()
	synctest.Wait() // returns only if the handler has returned or is durably blocked on the stream
	runtime.ReadMemStats(&m1)
	out.allocated = m1.TotalAlloc - m0.TotalAlloc
	if keepOpen {
		stalled := !out.returned
		up.once.Do(func() { close(up.closed) })
		synctest.Wait()
		_ = stalled
	}
	for {
		select {
		case cs := <-serv.reportChan:
			if cs.MessageType == cla.ReceivedBundle {
				var buf bytes.Buffer
				_ = cs.Message.(cla.ConvergenceReceivedBundle).Bundle.MarshalCbor(&buf)
				out.handedUp = append(out.handedUp, buf.Bytes())
			}
			continue
		default:
		}
		return out
	}
}

func (s *decSim) body() {
	time.Sleep(900 * 24 * time.Hour)
	t0 := time.Now()
	c := s.c
	r := simk.NewRand(c.Seed, "data")
	rnd := simk.NewRand(c.Seed, "chunks")
	// a well-formed stream: frame(bundle) keep-alive frame(bundle)
	var wires [][]byte
	var stream bytes.Buffer
	var framePos []int // offsets of the MTCP length prefixes
	nb := c.CfgInt("bundles", 2)
	for i := 0; i < nb; i++ {
		bld := bpv7.Builder().CRC(bpv7.CRCType(c.CfgInt("crc", 2))).Source("dtn://src/a").Destination("dtn://dst/b").CreationTimestampNow().Lifetime("1h")
		if r.Bool(0.5) {
			bld.HopCountBlock(r.Range(1, 200))
		}
		if r.Bool(0.5) {
			bld.PreviousNodeBlock("dtn://prev/")
		}
		if r.Bool(0.4) {
			bld.Canonical(bpv7.NewGenericExtensionBlock(bytes.Repeat([]byte{0x5a}, r.Range(0, 30)), 222), bpv7.BlockControlFlags(0))
		}
		pay := make([]byte, c.CfgInt("pay", 40))
		for j := range pay {
			pay[j] = byte(r.Intn(256))
		}
		b, err := bld.PayloadBlock(pay).Build()
		if err != nil {
			s.res.HarnessErr = err.Error()
			return
		}
		b.PrimaryBlock.CreationTimestamp[1] = uint64(i)
		var buf bytes.Buffer
		_ = b.MarshalCbor(&buf)
		wires = append(wires, buf.Bytes())
		framePos = append(framePos, stream.Len())
		_ = cboring.WriteByteStringLen(uint64(buf.Len()), &stream)
		stream.Write(buf.Bytes())
		if i == 0 {
			_ = cboring.WriteByteStringLen(0, &stream) // keep-alive
		}
	}
	data := stream.Bytes()
	prefixOK := func(what string, o *decOutcome) {
		for i, h := range o.handedUp {
			if i >= len(wires) || !bytes.Equal(h, wires[i]) {
				s.res.Violate("C04", "only-what-was-sent", "decoder-hands-up-something-that-was-not-sent", "%s: item %d handed up by the connection handler is not the %d-th bundle sent", what, i, i)
				return
			}
		}
	}
	// clean (also the allocation baseline: what decoding the complete, well-formed stream costs)
	o := feed(data, false, rnd)
	if !o.returned || len(o.handedUp) != len(wires) {
		s.res.Violate("C04", "clean", "clean-stream-not-decoded", "returned=%v handed up %d of %d", o.returned, len(o.handedUp), len(wires))
	}
	_ = o.allocated
	common := func(what string, o *decOutcome, delivered int, truncatedOnly bool) {
		if o.panicked != "" {
			s.res.Violate("C04", "no-panic", "panic-escapes-connection-handler", "%s: %s", what, o.panicked)
		}
		// TotalAlloc is process-wide and a little noisy: 4 MiB of slack (every boundary value from
		// 2^31-1 upwards is far beyond it), and an excess must show twice
		limit := uint64(4<<20) + 2*uint64(delivered)
		if o.allocated > limit && o.again != nil && o.again().allocated > limit {
			s.res.Violate("C04", "bounded-allocation", "allocation-exceeds-delivered-bytes", "%s: %d bytes allocated while only %d bytes arrived (bound: 4 MiB + 2 x delivered)", what, o.allocated, delivered)
		}
		if truncatedOnly {
			prefixOK(what, o) // a truncated stream can only yield a prefix of what was sent
		}
	}
	// 1. cut at every offset
	for k := 0; k < len(data); k++ {
		o := feed(data[:k], false, rnd)
		if !o.returned {
			s.res.Violate("C04", "terminates", "handler-does-not-return-after-eof", "stream cut after %d of %d bytes: the connection handler has not returned", k, len(data))
		}
		common(fmt.Sprintf("cut after %d bytes", k), o, k, true)
	}
	s.res.Fault("stream_cut")
	// 2. the length / count headers: MTCP prefixes and every CBOR header inside the bundles
	type site struct {
		pos, hlen int
		major     byte
		what      string
	}
	var sites []site
	off := 0
	for i, fp := range framePos {
		hs := simk.CborHeaders(data[fp:])
		if len(hs) == 0 {
			continue
		}
		sites = append(sites, site{fp, hs[0].Len, 2, fmt.Sprintf("MTCP length prefix of frame %d", i)})
		body := fp + hs[0].Len
		for _, h := range simk.CborHeaders(wires[i]) {
			sites = append(sites, site{body + h.Pos, h.Len, h.Major, fmt.Sprintf("CBOR header (major %d, value %d) at offset %d of bundle %d", h.Major, h.Value, h.Pos, i)})
		}
		_ = off
	}
	// 2a. stall right after each header: the peer declares, then never sends
	for _, st := range sites {
		k := st.pos + st.hlen
		o := feed(data[:k], true, rnd)
		common("stall after "+st.what, o, k, true)
	}
	s.res.Fault("stream_stall")
	// 2b. each header set to each boundary value; the rest of the stream follows unchanged, then EOF
	for _, st := range sites {
		for _, v := range simk.BoundaryValues {
			mut := append([]byte(nil), data[:st.pos]...)
			mut = append(mut, simk.CborHead(st.major, v)...)
			mut = append(mut, data[st.pos+st.hlen:]...)
			what := fmt.Sprintf("%s set to %d", st.what, v)
			o := feed(mut, false, rnd)
			if !o.returned {
				s.res.Violate("C04", "terminates", "handler-does-not-return-after-eof", "%s: the connection handler has not returned", what)
			}
			common(what, o, len(mut), false)
			// declared, never sent: the same with the stream staying open
			o = feed(mut[:st.pos+len(simk.CborHead(st.major, v))], true, rnd)
			common(what+" (then stall)", o, st.pos+9, false)
		}
	}
	s.res.Fault("field_corrupt")
	s.lg.Add("stream=%d sites=%d", len(data), len(sites))
	s.res.Steps = len(data) + len(sites)*(1+2*len(simk.BoundaryValues))
	s.res.SimMs = int64(time.Since(t0) / time.Millisecond)
	s.res.Nontrivial = true
}

func genDecCase(seed uint64, tier, focus, variant string) *simk.Case {
	r := simk.NewRand(seed, "script")
	c := &simk.Case{Harness: "dec-mtcp", Seed: seed, Cfg: map[string]interface{}{}}
	c.Cfg["bundles"] = r.Range(1, 2)
	c.Cfg["crc"] = r.Pick(0, 1, 2)
	c.Cfg["pay"] = r.Pick(0, 1, 23, 24, 100, 255, 256)
	return c
}

var _ = testing.Short
