//go:debug asynctimerchan=0

package bbc

// C12 (broadcast connector): real Connectors on a simulated broadcast medium. For each bundle x MTU
// the clean fragment train is judged first, then every single drop, duplication and adjacent swap
// of the train is applied in turn (enumerated), plus seeded multi-fault patterns and two interleaved
// incoming transmissions (DESIGN.md §4 C12, App. A.7).

import (
	"bytes"
	"fmt"
	"io"
	"io/ioutil"
	"os"
	"strings"
	"sync"
	"testing"
	"testing/synctest"
	"time"

	log "github.com/sirupsen/logrus"
	"github.com/ulikunitz/xz"

	"github.com/dtn7/dtn7-go/pkg/bpv7"
	"github.com/dtn7/dtn7-go/pkg/cla"

	"verif.local/simk"
)

var simT *testing.T

// simModem queues what its connector sends; the medium decides what the others receive.
type simModem struct {
	name   string
	mtu    int
	mu     sync.Mutex
	out    []Fragment
	in     chan Fragment
	closed chan struct{}
	once   sync.Once
}

func newSimModem(name string, mtu int) *simModem {
	return &simModem{name: name, mtu: mtu, in: make(chan Fragment, 4096), closed: make(chan struct{})}
}
func (m *simModem) Mtu() int { return m.mtu }
func (m *simModem) Send(f Fragment) error {
	m.mu.Lock()
	m.out = append(m.out, f)
	m.mu.Unlock()
	return nil
}
func (m *simModem) Receive() (Fragment, error) {
	select {
	case f := <-m.in:
		return f, nil
	case <-m.closed:
		return Fragment{}, io.EOF
	}
}
func (m *simModem) Close() error   { m.once.Do(func() { close(m.closed) }); return nil }
func (m *simModem) String() string { return m.name }
func (m *simModem) take() []Fragment {
	m.mu.Lock()
	defer m.mu.Unlock()
	o := m.out
	m.out = nil
	return o
}

type bbcSim struct {
	c    *simk.Case
	res  *simk.Result
	lg   *simk.Log
	seed uint64
}

func bbcBundle(tag string, payLen int, crc int) (bpv7.Bundle, []byte) {
	pay := []byte(tag + "|")
	r := simk.NewRand(uint64(payLen)*7919+uint64(len(tag)), "payload")
	for len(pay) < payLen {
		pay = append(pay, byte(r.Intn(256))) // incompressible, so that trains get long
	}
	b, err := bpv7.Builder().CRC(bpv7.CRCType(crc)).Source("dtn://a/"+tag).Destination("dtn://b/x").CreationTimestampNow().Lifetime("1h").PayloadBlock(pay).Build()
	if err != nil {
		panic(err)
	}
	var buf bytes.Buffer
	_ = b.MarshalCbor(&buf)
	return b, buf.Bytes()
}

func runBbcCase(c *simk.Case) *simk.Result {
	res := &simk.Result{}
	s := &bbcSim{c: c, res: res, lg: &simk.Log{}, seed: c.Seed}
	log.SetOutput(ioutil.Discard)
	log.SetLevel(log.PanicLevel)
	func() {
		defer func() {
			if r := recover(); r != nil {
				msg := fmt.Sprint(r)
				if !strings.Contains(msg, "blocked goroutines remain") && !strings.Contains(msg, "deadlock: main bubble goroutine has exited") {
					if res.HarnessErr == "" {
						res.HarnessErr = "bubble panic: " + msg
					}
				}
			}
		}()
		synctest.Test(simT, func(t *testing.T) { s.body() })
	}()
	res.LogHash = s.lg.Hash()
	res.Log = s.lg.Lines
	return res
}

type bbcOutcome struct {
	delivered [][]byte // encodings of bundles the receiver handed up
	failFor   map[byte]bool
	sendErr   error
}

// exchange: fresh connectors; the senders send their bundles; the medium delivers the (faulted)
// trains to the receiver in the given order; failure fragments travel back. pattern maps the
// position in sender 0's train to an action.
func (s *bbcSim) exchange(mtu int, tids []byte, bundles []bpv7.Bundle, mangle func(trains [][]Fragment) []Fragment) (*bbcOutcome, [][]Fragment) {
	out := &bbcOutcome{failFor: map[byte]bool{}}
	rm := newSimModem("rx", mtu)
	rx := NewConnector(rm, true)
	rx.tid = 200
	_, _ = rx.Start()
	var trains [][]Fragment
	var senders []*Connector
	var smodems []*simModem
	for i, b := range bundles {
		sm := newSimModem(fmt.Sprintf("tx%d", i), mtu)
		tx := NewConnector(sm, true)
		tx.tid = tids[i]
		_, _ = tx.Start()
		senders = append(senders, tx)
		smodems = append(smodems, sm)
		done := false
		var err error
		bb := b
		go func() { err = tx.Send(bb); done = true }()
		synctest.Wait()
		// a train longer than the connector's 64-fragment queue needs the writer to drain: it does (Send on the modem never blocks)
		if !done {
			s.res.Violate("C12", "send-returns", "bbc-send-does-not-return", "Connector.Send did not return (mtu %d)", mtu)
		}
		if i == 0 {
			out.sendErr = err
		}
		trains = append(trains, sm.take())
	}
	for _, f := range mangle(trains) {
		rm.in <- f
		synctest.Wait()
		for _, back := range rm.take() {
			if back.FailBit() {
				out.failFor[back.TransmissionID()] = true
			}
			for _, sm := range smodems {
				sm.in <- back
			}
		}
	}
	synctest.Wait()
	for {
		select {
		case cs := <-rx.Channel():
			if cs.MessageType == cla.ReceivedBundle {
				var buf bytes.Buffer
				b := cs.Message.(cla.ConvergenceReceivedBundle).Bundle
				_ = b.MarshalCbor(&buf)
				out.delivered = append(out.delivered, buf.Bytes())
			}
			continue
		default:
		}
		break
	}
	go func() { _ = rx.Close() }()
	for _, tx := range senders {
		tx := tx
		go func() { _ = tx.Close() }()
	}
	synctest.Wait()
	return out, trains
}

func (s *bbcSim) body() {
	time.Sleep(600 * 24 * time.Hour)
	t0 := time.Now()
	mtu := s.c.CfgInt("mtu", 32)
	pay := s.c.CfgInt("pay", 60)
	tid := byte(s.c.CfgInt("tid", 7))
	b, wire := bbcBundle("X0", pay, s.c.CfgInt("crc", 2))
	ident := func(trains [][]Fragment) []Fragment { return trains[0] }

	// 1. the clean train
	clean, trains := s.exchange(mtu, []byte{tid}, []bpv7.Bundle{b}, ident)
	train := trains[0]
	n := len(train)
	s.lg.Add("mtu=%d payload=%d encoded=%d train=%d", mtu, pay, len(wire), n)
	if n >= 17 {
		s.res.Probe("train_ge_17")
	}
	if n == 1 {
		s.res.Probe("train_of_one")
	}
	var cat []byte
	for i, f := range train {
		if len(f.Bytes()) > mtu {
			s.res.Violate("C12", "mtu", "fragment-larger-than-mtu", "fragment %d of %d has %d bytes, MTU %d", i, n, len(f.Bytes()), mtu)
		}
		if f.TransmissionID() != tid {
			s.res.Violate("C12", "train", "fragment-with-wrong-transmission-id", "fragment %d: tid %d, expected %d", i, f.TransmissionID(), tid)
		}
		if i > 0 && f.SequenceNumber() != (train[i-1].SequenceNumber()+1)%16 {
			s.res.Violate("C12", "train", "sequence-numbers-not-consecutive", "fragment %d has sequence number %d after %d", i, f.SequenceNumber(), train[i-1].SequenceNumber())
		}
		if f.StartBit() != (i == 0) || f.EndBit() != (i == n-1) || f.FailBit() {
			s.res.Violate("C12", "train", "start-end-marks-misplaced", "fragment %d of %d: start=%v end=%v fail=%v", i, n, f.StartBit(), f.EndBit(), f.FailBit())
		}
		cat = append(cat, f.Payload...)
	}
	if xr, err := xz.NewReader(bytes.NewReader(cat)); err != nil {
		s.res.Violate("C12", "train", "train-does-not-reassemble", "xz: %v", err)
	} else {
		var rb bpv7.Bundle
		if err := rb.UnmarshalCbor(xr); err != nil {
			s.res.Violate("C12", "train", "train-does-not-reassemble", "bundle: %v", err)
		} else {
			var buf bytes.Buffer
			_ = rb.MarshalCbor(&buf)
			if !bytes.Equal(buf.Bytes(), wire) {
				s.res.Violate("C12", "train", "train-reassembles-to-another-bundle", "")
			}
		}
	}
	if clean.sendErr != nil {
		s.res.Violate("C12", "clean", "clean-send-fails", "Send on a clean medium: %v", clean.sendErr)
	}
	if len(clean.delivered) != 1 || !bytes.Equal(clean.delivered[0], wire) {
		s.res.Violate("C12", "clean", "clean-train-not-delivered-once-identical", "the receiver handed up %d bundles for the clean train of %d fragments", len(clean.delivered), n)
	}
	if clean.failFor[tid] {
		s.res.Violate("C12", "clean", "failure-signalled-for-clean-train", "")
	}

	// 2. every single drop, duplication and adjacent swap (enumerated)
	judge := func(kind string, pos int, o *bbcOutcome) {
		for _, d := range o.delivered {
			if !bytes.Equal(d, wire) {
				s.res.Violate("C12", "never-a-different-bundle", "faulted-train-delivers-a-different-bundle/"+kind, "%s at fragment %d of %d: the receiver handed up a bundle that differs from the one sent", kind, pos, n)
			}
		}
		if kind == "drop" && n == 1 {
			return // the whole transmission vanished: no receiver ever saw any of it
		}
		if len(o.delivered) == 0 && !o.failFor[tid] {
			where := "middle"
			if pos == 0 {
				where = "first"
			}
			if pos == n-1 || (kind == "swap" && pos == n-2) {
				where = "last"
			}
			s.res.Violate("C12", "failure-signalled", "no-failure-signalled/"+kind+"-"+where+"-fragment", "%s at fragment %d of %d (mtu %d): the receiver neither handed up the bundle nor broadcast a failure fragment for transmission %d", kind, pos, n, mtu, tid)
		}
		// "signals failure", literally: a train of two or more fragments in which a fragment other than the
		// last was dropped, duplicated or swapped makes the receiver broadcast a failure fragment, whether or
		// not it hands something up. (A duplicated last fragment arrives after the delivery; a lost last
		// fragment is the recorded finding; a one-fragment train has nothing a receiver could notice.)
		lastOnly := pos == n-1 && kind != "swap"
		if n >= 2 && !lastOnly && !o.failFor[tid] {
			s.res.Violate("C12", "failure-signalled", "faulted-train-accepted-without-failure-signal/"+kind, "%s at fragment %d of %d (mtu %d): no failure fragment for transmission %d (bundles handed up: %d)", kind, pos, n, mtu, tid, len(o.delivered))
		}
		s.res.Fault("frag_" + kind)
	}
	for i := 0; i < n; i++ {
		i := i
		o, _ := s.exchange(mtu, []byte{tid}, []bpv7.Bundle{b}, func(t [][]Fragment) []Fragment {
			return append(append([]Fragment(nil), t[0][:i]...), t[0][i+1:]...)
		})
		judge("drop", i, o)
		o, _ = s.exchange(mtu, []byte{tid}, []bpv7.Bundle{b}, func(t [][]Fragment) []Fragment {
			r := append([]Fragment(nil), t[0][:i+1]...)
			r = append(r, t[0][i])
			return append(r, t[0][i+1:]...)
		})
		judge("dup", i, o)
		if i+1 < n {
			o, _ = s.exchange(mtu, []byte{tid}, []bpv7.Bundle{b}, func(t [][]Fragment) []Fragment {
				r := append([]Fragment(nil), t[0]...)
				r[i], r[i+1] = r[i+1], r[i]
				return r
			})
			judge("swap", i, o)
		}
	}
	// 3. seeded multi-fault patterns (fewer than sixteen losses in a row)
	r := simk.NewRand(s.seed, "fault")
	for k := 0; k < s.c.CfgInt("multi", 4); k++ {
		o, _ := s.exchange(mtu, []byte{tid}, []bpv7.Bundle{b}, func(t [][]Fragment) []Fragment {
			var out []Fragment
			run := 0
			for _, f := range t[0] {
				switch x := r.Intn(10); {
				case x < 2 && run < 15:
					run++
				case x < 3:
					out = append(out, f, f)
					run = 0
				default:
					out = append(out, f)
					run = 0
				}
			}
			if len(out) > 2 && r.Bool(0.3) {
				j := r.Intn(len(out) - 1)
				out[j], out[j+1] = out[j+1], out[j]
			}
			return out
		})
		for _, d := range o.delivered {
			if !bytes.Equal(d, wire) {
				s.res.Violate("C12", "never-a-different-bundle", "faulted-train-delivers-a-different-bundle/multi", "seeded multi-fault pattern %d", k)
			}
		}
		s.res.Fault("frag_multi")
	}
	// 4. two interleaved incoming transmissions
	b2, wire2 := bbcBundle("X1", s.c.CfgInt("pay2", 40), s.c.CfgInt("crc", 2))
	o, _ := s.exchange(mtu, []byte{tid, tid + 100}, []bpv7.Bundle{b, b2}, func(t [][]Fragment) []Fragment {
		var out []Fragment
		i, j := 0, 0
		for i < len(t[0]) || j < len(t[1]) {
			if j >= len(t[1]) || (i < len(t[0]) && r.Bool(0.5)) {
				out = append(out, t[0][i])
				i++
			} else {
				out = append(out, t[1][j])
				j++
			}
		}
		return out
	})
	got1, got2 := 0, 0
	for _, d := range o.delivered {
		switch {
		case bytes.Equal(d, wire):
			got1++
		case bytes.Equal(d, wire2):
			got2++
		default:
			s.res.Violate("C12", "never-a-different-bundle", "interleaved-transmissions-deliver-a-different-bundle", "")
		}
	}
	if got1 != 1 || got2 != 1 {
		s.res.Violate("C12", "interleaved", "interleaved-clean-transmissions-not-both-delivered", "two clean, interleaved transmissions: delivered %d and %d times", got1, got2)
	}
	s.res.Probe("interleaved_transmissions")
	s.res.Steps = 3*n + 6
	s.res.SimMs = int64(time.Since(t0) / time.Millisecond)
	s.res.Nontrivial = n >= 2
}

func genBbcCase(seed uint64, tier, focus, variant string) *simk.Case {
	r := simk.NewRand(seed, "script")
	c := &simk.Case{Harness: "bbc", Seed: seed, Cfg: map[string]interface{}{}}
	c.Cfg["mtu"] = r.Pick(3, 4, 5, 8, 16, 32, 64, 100, 255, r.Range(3, 255))
	c.Cfg["pay"] = r.Pick(1, 4, 20, 60, 150, 400)
	if mtu := c.CfgInt("mtu", 32); mtu < 8 {
		c.Cfg["pay"] = r.Pick(1, 4, 10) // keep trains (and the enumeration) bounded
	}
	c.Cfg["pay2"] = r.Pick(1, 10, 50)
	c.Cfg["crc"] = r.Pick(0, 1, 2)
	c.Cfg["tid"] = r.Pick(0, 1, 7, 100, 155, 254, 255)
	c.Cfg["multi"] = r.Range(2, 6)
	return c
}

func TestSimWorker(t *testing.T) {
	if os.Getenv("VERIF_HARNESS") == "" {
		t.Skip("simulation worker: set VERIF_HARNESS")
	}
	simT = t
	os.Exit(simk.WorkerMain([]*simk.Harness{{Name: "bbc", Gen: genBbcCase, Run: runBbcCase}, {Name: "dec-bbc", Gen: genBbcDecCase, Run: runBbcDecCase}}))
}
