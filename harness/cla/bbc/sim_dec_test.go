package bbc

// C04 (BBC fragments and transmissions): a well-formed fragment train from a simulated neighbour
// is fed to a real Connector's fragment handler (handleIncomingFragment -> IncomingTransmission ->
// xz -> bundle decoder) with
//   (a) every fragment truncated at every offset,
//   (b) every fragment's identifier byte: all 8 start/end/fail combinations x sequence number {0, own, next, 31},
//   (c) the bundle's CBOR truncated at every offset / every length and count set to each boundary
//       value, compressed and fragmented like the real sender does,
//   (d) the compressed stream truncated at every offset and the xz block header's dictionary-size
//       field (the one declared size of that format) set to every legal value, header CRC recomputed.
// The handler must return: no panic, no endless loop, bounded allocation (DESIGN.md §8.3).

import (
	"bytes"
	"encoding/binary"
	"fmt"
	"hash/crc32"
	"io/ioutil"
	"time"

	log "github.com/sirupsen/logrus"
	"github.com/ulikunitz/xz"

	"github.com/dtn7/dtn7-go/pkg/bpv7"

	"verif.local/simk"
)

type nullModem struct{}

func (nullModem) Mtu() int                   { return 64 }
func (nullModem) Send(Fragment) error        { return nil }
func (nullModem) Receive() (Fragment, error) { select {} }
func (nullModem) Close() error               { return nil }
func (nullModem) String() string             { return "null" }

func encodeTrain(frags [][]byte) []byte {
	var out []byte
	for _, f := range frags {
		var l [2]byte
		binary.BigEndian.PutUint16(l[:], uint16(len(f)))
		out = append(append(out, l[:]...), f...)
	}
	return out
}

// feedTrain is the decoder under test: one fresh connector, every datagram of the train in order.
func feedTrain(train []byte) (bundles int) {
	c := NewConnector(nullModem{}, false)
	for len(train) >= 2 {
		n := int(binary.BigEndian.Uint16(train))
		train = train[2:]
		if n > len(train) {
			n = len(train)
		}
		d := append([]byte(nil), train[:n]...) // a modem hands over its own buffer; the transmission appends to it
		train = train[n:]
		if f, err := ParseFragment(d); err == nil {
			_ = c.handleIncomingFragment(f)
			_ = f.String()
		}
		// the connector's writer and the node above it, which are not running here
		for drained := false; !drained; {
			select {
			case <-c.fragmentOut:
			case <-c.failTransmission:
			case <-c.reportChan:
				bundles++
			default:
				drained = true
			}
		}
	}
	return
}

func trainOf(tid byte, payload []byte, mtu int) [][]byte {
	t, _ := newPlainOutgoingTransmission(tid, payload, mtu)
	var out [][]byte
	for {
		f, fin, err := t.WriteFragment()
		if err != nil {
			break
		}
		out = append(out, f.Bytes())
		if fin {
			break
		}
	}
	return out
}

func xzSmall(data []byte) []byte {
	var buf bytes.Buffer
	w, err := xz.WriterConfig{DictCap: 1 << 16}.NewWriter(&buf)
	if err != nil {
		panic(err)
	}
	_, _ = w.Write(data)
	_ = w.Close()
	return buf.Bytes()
}

// xzDictFaults rewrites the LZMA2 dictionary-size byte of the first block header.
func xzDictFaults(stream []byte) [][]byte {
	// stream header 12 bytes; block header: size byte, flags, filter id 0x21, props size 0x01, dict byte, padding, CRC32
	if len(stream) < 24 || stream[12] == 0 {
		return nil
	}
	hl := (int(stream[12]) + 1) * 4
	if 12+hl > len(stream) || stream[14] != 0x21 || stream[15] != 0x01 {
		return nil
	}
	var out [][]byte
	// 0..28 = 4 KiB .. 64 MiB. The field goes up to 40 (4 GiB); larger values are not fed because the
	// decompressor really allocates what is declared and would take the worker process down.
	for v := 0; v <= 28; v++ {
		m := append([]byte(nil), stream...)
		m[16] = byte(v)
		binary.LittleEndian.PutUint32(m[12+hl-4:], crc32.ChecksumIEEE(m[12:12+hl-4]))
		out = append(out, m)
	}
	return out
}

// decBbcBundle: a bundle with a fixed creation time, so that a seed always yields the same bytes
func decBbcBundle(r *simk.Rand, payLen int) []byte {
	pay := make([]byte, payLen)
	for i := range pay {
		pay[i] = byte(r.Intn(256))
	}
	b, err := bpv7.Builder().CRC(bpv7.CRCType(r.Intn(3))).Source(fmt.Sprintf("dtn://a/D%02d", r.Intn(100))).Destination("dtn://b/x").
		CreationTimestampTime(time.Unix(1700000000+int64(r.Intn(1<<20)), 0)).Lifetime("300000h").PayloadBlock(pay).Build()
	if err != nil {
		panic(err)
	}
	var buf bytes.Buffer
	_ = b.MarshalCbor(&buf)
	return buf.Bytes()
}

func runBbcDecCase(c *simk.Case) *simk.Result {
	res := &simk.Result{}
	lg := &simk.Log{}
	log.SetOutput(ioutil.Discard)
	log.SetLevel(log.PanicLevel)
	r := simk.NewRand(c.Seed, "data")
	mtu := r.Pick(8, 16, 32, 64)
	tid := byte(r.Intn(256))
	cborBytes := decBbcBundle(r, r.Range(0, 3*mtu))
	// the real sender's own train (default xz settings) must arrive
	valid := trainOf(tid, func() []byte {
		var buf bytes.Buffer
		w, _ := xz.NewWriter(&buf)
		_, _ = w.Write(cborBytes)
		_ = w.Close()
		return buf.Bytes()
	}(), mtu)
	if n := feedTrain(encodeTrain(valid)); n != 1 {
		res.Violate("C04", "clean", "clean-train-not-decoded", "%d bundles from a clean train of %d fragments", n, len(valid))
	}
	var faults []simk.DatagramFault
	add := func(what string, frags [][]byte) {
		if len(frags) > 60 {
			return // the connector's queues (64) are drained by goroutines this harness does not run
		}
		faults = append(faults, simk.DatagramFault{What: what, Data: encodeTrain(frags)})
	}
	small := xzSmall(cborBytes)
	train := trainOf(tid, small, mtu)
	switch c.CfgS("family", "frag") {
	case "frag":
		for i, f := range train {
			for k := 0; k < len(f); k++ {
				mut := append([][]byte(nil), train...)
				mut[i] = f[:k]
				add(fmt.Sprintf("fragment %d of %d cut after %d of %d bytes", i, len(train), k, len(f)), mut)
			}
			// identifier byte: all 8 flag combinations x sequence number {0, its own, the next, 31}
			own := f[1] >> 3
			for _, seq := range []byte{0, own, (own + 1) & 0x1f, 31} {
				for fl := byte(0); fl < 8; fl++ {
					v := seq<<3 | fl
					mut := append([][]byte(nil), train...)
					g := append([]byte(nil), f...)
					g[1] = v
					mut[i] = g
					add(fmt.Sprintf("fragment %d of %d: identifier byte set to %#02x", i, len(train), v), mut)
				}
			}
		}
	case "cbor":
		for _, f := range simk.DatagramFaults(cborBytes) {
			add("bundle: "+f.What, trainOf(tid, xzSmall(f.Data), 64))
		}
	case "xz":
		for k := 0; k < len(small); k++ {
			add(fmt.Sprintf("compressed stream cut after %d of %d bytes", k, len(small)), trainOf(tid, small[:k], 64))
		}
		for v, m := range xzDictFaults(small) {
			add(fmt.Sprintf("xz block header: dictionary size field set to %d (%d KiB)", v, (2|(v&1))<<(v/2+1)), trainOf(tid, m, 64))
			faults[len(faults)-1].Class = "xz-dictionary-size"
		}
		res.Probe(fmt.Sprintf("xz_dict_variants_%d", len(xzDictFaults(small))))
	}
	fed := simk.JudgeDecoder(res, "bbc-transmission", faults, func(d []byte) { feedTrain(d) })
	res.Fault("datagram_cut")
	res.Fault("field_corrupt")
	res.Probe("family_" + c.CfgS("family", "frag"))
	lg.Add("bbc family=%s mtu=%d bundle=%d train=%d faults=%d", c.CfgS("family", "frag"), mtu, len(cborBytes), len(train), len(faults))
	res.LogHash, res.Log, res.Steps, res.Nontrivial = lg.Hash(), lg.Lines, fed, true
	return res
}

func genBbcDecCase(seed uint64, tier, focus, variant string) *simk.Case {
	r := simk.NewRand(seed, "script")
	return &simk.Case{Harness: "dec-bbc", Seed: seed, Cfg: map[string]interface{}{"family": r.PickS("frag", "cbor", "xz")}}
}
