//go:debug asynctimerchan=0

package cla

// C16: the real cla.Manager with scripted adapters under the fake clock, checked after every
// settled step against a reference state machine written from the property statement
// (DESIGN.md §4 C16, App. A.3).

import (
	"errors"
	"fmt"
	"io/ioutil"
	"os"
	"runtime"
	"sort"
	"strconv"
	"strings"
	"sync"
	"testing"
	"testing/synctest"
	"time"

	log "github.com/sirupsen/logrus"

	"github.com/dtn7/dtn7-go/pkg/bpv7"

	"verif.local/simk"
)

type claAdapterSpec struct {
	Name      string `json:"name"`
	Permanent bool   `json:"permanent"`
	Kind      string `json:"kind"` // "sender" | "receiver"
	// start outcome mix in percent: ok / retry / final
	POk    int `json:"p_ok"`
	PRetry int `json:"p_retry"`
}

// scripted adapter instance
type claInst struct {
	h      *claSim
	spec   *claAdapterSpec
	addr   int // address index
	serial int
	ch     chan ConvergenceStatus
	mu     sync.Mutex
	starts []string // outcome of every Start call
	closes int
	// derived
	startedNow bool // latest Start succeeded and no Close since
	closeWhileStopped int
}

func (a *claInst) outcome(call int) string {
	if f, ok := a.h.forced[a.name()]; ok && call < len(f) {
		return f[call]
	}
	d := int(simk.Decide(a.h.seed, "start", a.name(), strconv.Itoa(call)) % 100)
	switch {
	case d < a.spec.POk:
		return "ok"
	case d < a.spec.POk+a.spec.PRetry:
		return "retry"
	}
	return "final"
}

func (a *claInst) name() string { return fmt.Sprintf("%s#%d", a.spec.Name, a.serial) }

func (a *claInst) Start() (error, bool) {
	a.mu.Lock()
	defer a.mu.Unlock()
	o := a.outcome(len(a.starts))
	a.starts = append(a.starts, o)
	switch o {
	case "ok":
		a.startedNow = true
		return nil, true
	case "retry":
		a.startedNow = false
		return errors.New("sim: start failed, retry"), true
	}
	a.startedNow = false
	return errors.New("sim: start failed for good"), false
}

func (a *claInst) Close() error {
	a.mu.Lock()
	defer a.mu.Unlock()
	a.closes++
	if !a.startedNow {
		a.closeWhileStopped++
	}
	a.startedNow = false
	return nil
}

func (a *claInst) snapshot() (starts []string, closes int, started bool, cws int) {
	a.mu.Lock()
	defer a.mu.Unlock()
	return append([]string(nil), a.starts...), a.closes, a.startedNow, a.closeWhileStopped
}

func (a *claInst) Channel() chan ConvergenceStatus { return a.ch }
func (a *claInst) Address() string                 { return fmt.Sprintf("sim://a%d", a.addr) }
func (a *claInst) IsPermanent() bool               { return a.spec.Permanent }
func (a *claInst) String() string                  { return a.name() }

type claSender struct{ *claInst }

func (s claSender) Send(bpv7.Bundle) error { return nil }
func (s claSender) GetPeerEndpointID() bpv7.EndpointID {
	return bpv7.MustNewEndpointID(fmt.Sprintf("dtn://peer%d/", s.addr))
}

type claReceiver struct{ *claInst }

func (r claReceiver) GetEndpointID() bpv7.EndpointID {
	return bpv7.MustNewEndpointID(fmt.Sprintf("dtn://own%d/", r.addr))
}

// model state per address
type claModel struct {
	state  string // "absent" | "waiting" | "active" | "waiting-or-absent"
	forgot bool
	attempts int // Start calls since the address was last registered from the absent state
	inst   *claInst
	conv   Convergence
}

type claSim struct {
	trafficInTick bool
	c      *simk.Case
	res    *simk.Result
	lg     *simk.Log
	seed   uint64
	m      *Manager
	budget int
	specs  []claAdapterSpec
	insts  []*claInst // all instances ever created
	convOf map[*claInst]Convergence
	model  map[int]*claModel
	closed bool
	forced map[string][]string
	serial int
	drained int
	stopDrain chan struct{}
	panicked bool
}

func (h *claSim) settle() { synctest.Wait() }

func (h *claSim) inject(f func()) {
	go func() {
		defer func() {
			if r := recover(); r != nil {
				buf := make([]byte, 8192)
				buf = buf[:runtime.Stack(buf, false)]
				h.res.Violate("C16", "no-panic", "panic/"+simk.PanicSite(string(buf)), "panic in the CLA manager: %v\n%s", r, buf)
				h.panicked = true
			}
		}()
		f()
	}()
	h.settle()
}

func (h *claSim) newInst(addr int) (*claInst, Convergence) {
	h.serial++
	a := &claInst{h: h, spec: &h.specs[addr], addr: addr, serial: h.serial, ch: make(chan ConvergenceStatus)}
	h.insts = append(h.insts, a)
	var c Convergence
	if a.spec.Kind == "receiver" {
		c = claReceiver{a}
	} else {
		c = claSender{a}
	}
	h.convOf[a] = c
	return a, c
}

func runClaCase(c *simk.Case) *simk.Result {
	res := &simk.Result{}
	h := &claSim{c: c, res: res, lg: &simk.Log{}, seed: c.Seed, convOf: map[*claInst]Convergence{}, model: map[int]*claModel{}, forced: map[string][]string{}}
	log.SetOutput(ioutil.Discard)
	log.SetLevel(log.PanicLevel)
	func() {
		defer func() {
			if r := recover(); r != nil {
				msg := fmt.Sprint(r)
				if !strings.Contains(msg, "blocked goroutines remain") && !strings.Contains(msg, "deadlock: main bubble goroutine has exited") {
					if res.HarnessErr == "" {
						res.HarnessErr = "bubble panic: " + msg
					}
				}
			}
		}()
		synctest.Test(simT, func(t *testing.T) { h.body() })
	}()
	res.LogHash = h.lg.Hash()
	res.Log = h.lg.Lines
	return res
}

var simT *testing.T

func (h *claSim) body() {
	time.Sleep(400 * 24 * time.Hour)
	t0 := time.Now()
	h.budget = h.c.CfgInt("budget", 2)
	if raw, ok := h.c.Cfg["adapters"]; ok {
		simk.Recode(raw, &h.specs)
	}
	if len(h.specs) == 0 {
		h.res.HarnessErr = "no adapters"
		return
	}
	for i := range h.specs {
		h.model[i] = &claModel{state: "absent"}
	}
	h.m = NewManager()
	h.m.queueTtl = int32(h.budget)
	h.stopDrain = make(chan struct{})
	go func() {
		for {
			select {
			case _, ok := <-h.m.Channel():
				if !ok {
					return
				}
				h.drained++
			case <-h.stopDrain:
				return
			}
		}
	}()
	h.settle()
	for i, op := range h.c.Ops {
		h.lg.Add("op %d %s", i, op.String())
		h.exec(op)
		h.res.Steps++
		if h.panicked {
			break // the manager's state is undefined after a panic
		}
		h.check(fmt.Sprintf("op %d %s", i, op.String()))
		if h.res.HarnessErr != "" {
			break
		}
	}
	if !h.closed && !h.panicked {
		h.opClose()
		if !h.panicked {
			h.check("final close")
		}
	}
	close(h.stopDrain)
	h.res.SimMs = int64(time.Since(t0) / time.Millisecond)
	h.res.Nontrivial = h.res.Faults["start_fail_retry"]+h.res.Faults["start_fail_final"]+h.res.Faults["peer_disappeared"] > 0
}

func (h *claSim) exec(op simk.Op) {
	a := op.P
	if a < 0 || a >= len(h.specs) {
		return
	}
	md := h.model[a]
	switch op.K {
	case "register":
		h.opRegister(a, false)
	case "register_dup":
		h.opRegister(a, true)
	case "unregister":
		if md.inst == nil || h.closed {
			return
		}
		conv := md.conv
		before := h.counts()
		h.inject(func() { h.m.Unregister(conv) })
		h.afterUnregister(a, before)
	case "restart":
		if md.inst == nil || h.closed {
			return
		}
		conv := md.conv
		before := h.counts()
		h.inject(func() { h.m.Restart(conv) })
		h.afterUnregister(a, before)
		h.afterRegister(a, md.inst, md.conv, before, true)
	case "disappear":
		if md.state != "active" || h.closed {
			return
		}
		inst, conv := md.inst, md.conv
		before := h.counts()
		h.res.Fault("peer_disappeared")
		h.inject(func() {
			inst.ch <- NewConvergencePeerDisappeared(conv, bpv7.MustNewEndpointID("dtn://gone/"))
		})
		// required: Close(x) once, then Start(x) again; listed iff that start succeeded
		st, cl, _, _ := inst.snapshot()
		b := before[inst]
		if cl != b.closes+1 {
			h.res.Violate("C16", "peer-loss-restarts", "peer-loss-close-count", "adapter %s reported peer loss: Close called %d times (expected once)", inst.name(), cl-b.closes)
		}
		if len(st) != len(b.starts)+1 {
			sig := "peer-loss-not-restarted"
			if len(st) > len(b.starts)+1 {
				sig = "peer-loss-started-more-than-once"
			}
			h.res.Violate("C16", "peer-loss-restarts", sig, "adapter %s (budget %d, permanent %v) reported peer loss: Start called %d times afterwards (expected once)", inst.name(), h.budget, inst.spec.Permanent, len(st)-len(b.starts))
			md.state = "waiting"
		}
		if len(st) > len(b.starts) {
			md.attempts = 1 // the restart is a new registration with a new budget
			h.noteStart(a, md, st[len(st)-1])
		}
	case "tick_traffic":
		h.trafficInTick = true
		h.tick()
	case "tick":
		n := int(op.N)
		if n <= 0 {
			n = 1
		}
		for k := 0; k < n; k++ {
			h.tick()
		}
	case "close":
		h.opClose()
	}
}

type claCounts struct {
	starts []string
	closes int
}

func (h *claSim) counts() map[*claInst]claCounts {
	m := map[*claInst]claCounts{}
	for _, a := range h.insts {
		st, cl, _, _ := a.snapshot()
		m[a] = claCounts{st, cl}
	}
	return m
}

func (h *claSim) noteStart(a int, md *claModel, outcome string) {
	switch outcome {
	case "ok":
		md.attempts = 0
		md.state = "active"
	case "retry":
		md.state = "waiting"
		h.res.Fault("start_fail_retry")
	default:
		// final failure: forgotten or kept waiting are both accepted by the statement
		md.state = "waiting-or-absent"
		h.res.Fault("start_fail_final")
	}
}

func (h *claSim) opRegister(a int, dup bool) {
	if h.closed {
		return
	}
	md := h.model[a]
	var inst *claInst
	var conv Convergence
	if md.inst != nil && !dup {
		inst, conv = md.inst, md.conv
	} else {
		inst, conv = h.newInst(a)
	}
	before := h.counts()
	h.inject(func() { h.m.Register(conv) })
	h.afterRegister(a, inst, conv, before, false)
}

func (h *claSim) afterRegister(a int, inst *claInst, conv Convergence, before map[*claInst]claCounts, isRestart bool) {
	md := h.model[a]
	if md.state == "active" {
		// registering an address twice keeps a single instance: no Start on the newcomer
		st, _, _, _ := inst.snapshot()
		if inst != md.inst && len(st) != 0 {
			h.res.Violate("C16", "single-instance", "second-instance-started", "address a%d is active with %s, yet the newly registered %s was started", a, md.inst.name(), inst.name())
		}
		if inst == md.inst && len(st) != len(before[inst].starts) {
			h.res.Violate("C16", "single-instance", "active-adapter-started-again", "address a%d: registering the active instance %s again called Start", a, inst.name())
		}
		h.res.Probe("double_registration")
		return
	}
	// Absent or Waiting: the manager may keep the instance it already knows (waiting) or adopt the
	// new one; exactly one Start now unless the budget is spent
	cands := []*claInst{inst}
	if md.inst != nil && md.inst != inst {
		cands = append(cands, md.inst)
	}
	started := 0
	var who *claInst
	var out string
	for _, cnd := range cands {
		st, _, _, _ := cnd.snapshot()
		if d := len(st) - len(before[cnd].starts); d > 0 {
			started += d
			who = cnd
			out = st[len(st)-1]
		}
	}
	if started > 1 {
		h.res.Violate("C16", "register-starts-once", "register-started-more-than-once", "register on address a%d called Start %d times", a, started)
	}
	if started == 0 {
		// acceptable if the retry budget of a non-permanent adapter is spent, or if the adapter's
		// last start said "do not retry" (the statement leaves open whether it is forgotten at once)
		if md.state != "waiting-or-absent" && (inst.spec.Permanent || h.remaining(a) > 0) {
			h.res.Violate("C16", "register-starts-once", "register-did-not-start", "register on address a%d (state %s, permanent %v, budget %d) did not call Start", a, md.state, inst.spec.Permanent, h.budget)
		}
		if md.inst == nil {
			md.inst, md.conv = inst, conv
		}
		md.state = "waiting-or-absent"
		return
	}
	if md.state == "absent" || md.state == "waiting-or-absent" {
		md.attempts = 0 // a new registration gets a new budget
	}
	md.attempts++
	md.inst, md.conv = who, h.convOf[who]
	h.noteStart(a, md, out)
}

// remaining: how many further Start attempts the statement grants a non-permanent adapter
// ("only for its retry budget"): budget+1 attempts in total per registration are accepted as an
// upper bound, at least min(budget,2)... the lower bound is only enforced on ticks.
func (h *claSim) remaining(a int) int {
	md := h.model[a]
	if md.inst == nil {
		return h.budget
	}
	st, _, _, _ := md.inst.snapshot()
	fails := 0
	for i := len(st) - 1; i >= 0 && st[i] != "ok"; i-- {
		fails++
	}
	return h.budget - fails
}

func (h *claSim) afterUnregister(a int, before map[*claInst]claCounts) {
	md := h.model[a]
	if md.inst == nil {
		return
	}
	_, cl, _, _ := md.inst.snapshot()
	d := cl - before[md.inst].closes
	switch md.state {
	case "active":
		if d != 1 {
			h.res.Violate("C16", "unregister-closes", "unregister-active-close-count", "unregistering active %s called Close %d times (expected once)", md.inst.name(), d)
		}
	default:
		if d != 0 {
			h.res.Violate("C16", "unregister-closes", "unregister-inactive-closed", "unregistering %s (state %s) called Close %d times (expected none)", md.inst.name(), md.state, d)
		}
	}
	md.state = "absent"
}

func (h *claSim) tick() {
	if h.closed {
		time.Sleep(10*time.Second + time.Millisecond)
		h.settle()
		return
	}
	before := h.counts()
	if h.trafficInTick {
		// status traffic inside the retry interval must not postpone the retry: an active adapter reports
		// something harmless (its peer appeared) six seconds into the interval
		h.trafficInTick = false
		var src *claModel
		for a := 0; a < len(h.specs); a++ {
			if md := h.model[a]; md.state == "active" && md.inst != nil {
				src = md
				break
			}
		}
		time.Sleep(6 * time.Second)
		h.settle()
		if src != nil {
			inst, conv := src.inst, src.conv
			h.res.Fault("status_traffic_inside_retry_interval")
			h.inject(func() {
				inst.ch <- NewConvergencePeerAppeared(conv, bpv7.MustNewEndpointID("dtn://seen/"))
			})
		}
		time.Sleep(4*time.Second + time.Millisecond)
	} else {
		time.Sleep(10*time.Second + time.Millisecond)
	}
	h.settle()
	for a := 0; a < len(h.specs); a++ {
		md := h.model[a]
		if md.inst == nil {
			continue
		}
		st, _, _, _ := md.inst.snapshot()
		d := len(st) - len(before[md.inst].starts)
		switch md.state {
		case "active", "absent":
			if d != 0 {
				h.res.Violate("C16", "tick", "tick-started-"+md.state+"-adapter", "retry tick called Start on %s whose address is %s", md.inst.name(), md.state)
			}
		case "waiting", "waiting-or-absent":
			if d > 1 {
				h.res.Violate("C16", "tick", "tick-started-more-than-once", "retry tick called Start %d times on %s", d, md.inst.name())
			}
			if d == 0 {
				if md.state == "waiting" && md.inst.spec.Permanent {
					h.res.Violate("C16", "permanent-retried-forever", "permanent-adapter-not-retried", "permanent adapter %s is waiting (last start failed, retryable) but the retry tick did not start it (starts so far %v, budget %d)", md.inst.name(), st, h.budget)
				}
				if md.state == "waiting" && !md.inst.spec.Permanent {
					// fine once the budget is spent; then it is forgotten for good
					if md.attempts < minInt(h.budget, 2) {
						h.res.Violate("C16", "budget", "non-permanent-adapter-given-up-early", "non-permanent adapter %s was given up after %d failed starts, budget %d", md.inst.name(), h.failsInRow(st), h.budget)
					}
					md.state = "absent"
					md.forgot = true
				}
				if md.state == "waiting-or-absent" {
					md.state = "absent"
				}
				continue
			}
			if !md.inst.spec.Permanent && md.attempts > h.budget {
				h.res.Violate("C16", "budget", "non-permanent-adapter-retried-beyond-budget", "non-permanent adapter %s started again after %d failed attempts since its registration, budget %d", md.inst.name(), md.attempts, h.budget)
			}
			md.attempts++
			h.res.Probe("retry_tick_started_adapter")
			h.noteStart(a, md, st[len(st)-1])
		}
	}
}

func minInt(a, b int) int {
	if a < b {
		return a
	}
	return b
}

func (h *claSim) failsInRow(st []string) int {
	f := 0
	for i := len(st) - 1; i >= 0 && st[i] != "ok"; i-- {
		f++
	}
	return f
}

func (h *claSim) opClose() {
	if h.closed {
		return
	}
	before := h.counts()
	done := false
	h.inject(func() {
		_ = h.m.Close()
		done = true
	})
	h.closed = true
	if h.panicked {
		return
	}
	if !done {
		h.res.Violate("C16", "close-returns", "manager-close-blocks", "Manager.Close did not return")
		return
	}
	for a := 0; a < len(h.specs); a++ {
		md := h.model[a]
		for _, inst := range h.insts {
			if inst.addr != a {
				continue
			}
			_, cl, _, _ := inst.snapshot()
			d := cl - before[inst].closes
			want := 0
			if md.state == "active" && inst == md.inst {
				want = 1
			}
			if d != want {
				h.res.Violate("C16", "close-stops-once", fmt.Sprintf("manager-close-called-close-%d-times-want-%d", d, want), "Manager.Close: adapter %s (address state %s) had Close called %d times, expected %d", inst.name(), md.state, d, want)
			}
		}
		md.state = "absent"
	}
}

// check compares the manager's listing with the adapters' own start/close history (L1).
func (h *claSim) check(where string) {
	listed := map[*claInst]bool{}
	var names []string
	for _, s := range h.m.Sender() {
		if cs, ok := s.(claSender); ok {
			listed[cs.claInst] = true
			names = append(names, cs.name())
		}
	}
	for _, r := range h.m.Receiver() {
		if cr, ok := r.(claReceiver); ok {
			listed[cr.claInst] = true
			names = append(names, cr.name())
		}
	}
	sort.Strings(names)
	h.lg.Add("listed %v", names)
	for _, inst := range h.insts {
		st, cl, started, cws := inst.snapshot()
		h.lg.Add("  %s starts=%v closes=%d", inst.name(), st, cl)
		if listed[inst] && !started {
			last := "never started"
			if len(st) > 0 {
				last = "last start: " + st[len(st)-1]
			}
			sig := "listed-but-not-started"
			if len(st) > 0 && st[len(st)-1] != "ok" {
				sig = "listed-after-failed-start"
				if inst.spec.Permanent {
					sig += "/permanent"
				}
			}
			h.res.Violate("C16", "active-iff-started", sig, "%s is listed as active at %s, but %s, closes=%d (budget %d, permanent %v, starts %v)", inst.name(), where, last, cl, h.budget, inst.spec.Permanent, st)
		}
		if !listed[inst] && started && !h.closed {
			h.res.Violate("C16", "active-iff-started", "started-but-not-listed", "%s was started successfully and not stopped since, but is not listed at %s", inst.name(), where)
		}
		if cws > 0 && false {
			_ = cws
		}
	}
	if h.closed && len(listed) > 0 {
		h.res.Violate("C16", "close-stops-once", "listed-after-manager-close", "adapters listed after Manager.Close: %v", names)
	}
}

func genClaCase(seed uint64, tier, focus, variant string) *simk.Case {
	r := simk.NewRand(seed, "script")
	c := &simk.Case{Harness: "cla", Seed: seed, Cfg: map[string]interface{}{}}
	c.Cfg["budget"] = r.Range(0, 3)
	na := r.Range(1, 3)
	var specs []claAdapterSpec
	for i := 0; i < na; i++ {
		sp := claAdapterSpec{Name: fmt.Sprintf("a%d", i), Permanent: r.Bool(0.5), Kind: r.PickS("sender", "sender", "receiver")}
		switch r.Intn(4) {
		case 0:
			sp.POk, sp.PRetry = 100, 0
		case 1:
			sp.POk, sp.PRetry = 0, 100
		case 2:
			sp.POk, sp.PRetry = 50, 40
		default:
			sp.POk, sp.PRetry = 30, 50
		}
		specs = append(specs, sp)
	}
	c.Cfg["adapters"] = specs
	n := r.Range(3, 25)
	if tier == "thorough" {
		n = r.Range(3, 40)
	}
	for i := 0; i < n; i++ {
		a := r.Intn(na)
		switch x := r.Intn(100); {
		case x < 25:
			c.Ops = append(c.Ops, simk.Op{K: "register", P: a})
		case x < 33:
			c.Ops = append(c.Ops, simk.Op{K: "register_dup", P: a})
		case x < 43:
			c.Ops = append(c.Ops, simk.Op{K: "unregister", P: a})
		case x < 50:
			c.Ops = append(c.Ops, simk.Op{K: "restart", P: a})
		case x < 62:
			c.Ops = append(c.Ops, simk.Op{K: "disappear", P: a})
		case x < 97:
			if rt := simk.NewRand(seed, fmt.Sprintf("traffic%d", len(c.Ops))); rt.Bool(0.3) {
				c.Ops = append(c.Ops, simk.Op{K: "tick_traffic"})
			} else {
				c.Ops = append(c.Ops, simk.Op{K: "tick", N: int64(r.Pick(1, 1, 1, 2, 5, 16))})
			}
		default:
			c.Ops = append(c.Ops, simk.Op{K: "close"})
		}
	}
	return c
}

func TestSimWorker(t *testing.T) {
	if os.Getenv("VERIF_HARNESS") == "" {
		t.Skip("simulation worker: set VERIF_HARNESS")
	}
	simT = t
	code := simk.WorkerMain([]*simk.Harness{{Name: "cla", Gen: genClaCase, Run: runClaCase}})
	os.Exit(code)
}
