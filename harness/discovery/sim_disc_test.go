//go:debug asynctimerchan=0

package discovery

// C04 (discovery announcements): a well-formed announcement datagram from a simulated neighbour is
// truncated at every offset and every CBOR length/count header is set to each boundary value.
// The decoder must return a value or an error: no panic, no allocation in proportion to a count
// whose elements never arrived. (A datagram decoder: no stream to stall; DESIGN.md §8.3.)

import (
	"fmt"
	"os"
	"runtime"
	"testing"

	"github.com/dtn7/dtn7-go/pkg/bpv7"
	"github.com/dtn7/dtn7-go/pkg/cla"

	"verif.local/simk"
)

func decode(data []byte) (n int, alloc uint64, panicked string) {
	var m0, m1 runtime.MemStats
	runtime.ReadMemStats(&m0)
	func() {
		defer func() {
			if r := recover(); r != nil {
				panicked = fmt.Sprint(r)
			}
		}()
		as, _ := UnmarshalAnnouncements(data)
		n = len(as)
	}()
	runtime.ReadMemStats(&m1)
	return n, m1.TotalAlloc - m0.TotalAlloc, panicked
}

func runDiscCase(c *simk.Case) *simk.Result {
	res := &simk.Result{}
	lg := &simk.Log{}
	r := simk.NewRand(c.Seed, "data")
	var as []Announcement
	for k := c.CfgInt("n", 2); k > 0; k-- {
		eid := bpv7.MustNewEndpointID(fmt.Sprintf("dtn://node%d/", r.Intn(1000)))
		if r.Bool(0.3) {
			eid = bpv7.MustNewEndpointID(fmt.Sprintf("ipn:%d.%d", r.Range(1, 70000), r.Range(1, 70000)))
		}
		as = append(as, Announcement{Type: cla.CLAType(r.Intn(2)), Endpoint: eid, Port: uint(r.Range(1, 65535))})
	}
	valid, err := MarshalAnnouncements(as)
	if err != nil {
		res.HarnessErr = err.Error()
		return res
	}
	if n, _, p := decode(valid); n != len(as) || p != "" {
		res.Violate("C04", "clean", "clean-announcement-not-decoded", "decoded %d of %d (panic %q)", n, len(as), p)
	}
	faults := simk.DatagramFaults(valid)
	for _, f := range faults {
		_, alloc, p := decode(f.Data)
		if p != "" {
			res.Violate("C04", "no-panic", "announcement-decoder-panics", "%s: %s", f.What, p)
			break
		}
		if limit := uint64(4<<20) + 2*uint64(len(f.Data)); alloc > limit {
			if _, again, _ := decode(f.Data); again > limit {
				res.Violate("C04", "bounded-allocation", "announcement-decoder-allocates-from-declared-count", "%s: %d bytes allocated for a datagram of %d bytes", f.What, alloc, len(f.Data))
				break
			}
		}
	}
	res.Fault("datagram_cut")
	res.Fault("field_corrupt")
	lg.Add("announcements=%d datagram=%d faults=%d", len(as), len(valid), len(faults))
	res.LogHash, res.Log, res.Steps, res.Nontrivial = lg.Hash(), lg.Lines, len(faults), true
	return res
}

func genDiscCase(seed uint64, tier, focus, variant string) *simk.Case {
	r := simk.NewRand(seed, "script")
	return &simk.Case{Harness: "dec-disc", Seed: seed, Cfg: map[string]interface{}{"n": r.Range(0, 4)}}
}

func TestSimWorker(t *testing.T) {
	if os.Getenv("VERIF_HARNESS") == "" {
		t.Skip("simulation worker: set VERIF_HARNESS")
	}
	os.Exit(simk.WorkerMain([]*simk.Harness{{Name: "dec-disc", Gen: genDiscCase, Run: runDiscCase}}))
}
