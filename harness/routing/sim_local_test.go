package routing

// C07: local delivery reaches exactly the registered recipients, once, and nobody else.
// Real Core + AgentManager + MuxAgent, real PingAgent, real RestAgent driven through its router
// with recorder requests (no sockets), mock agents; scripted peers to see that nothing local
// leaks to the network. The deliver-during-fetch interleaving is forced at the REST mailbox hooks.
// WebSocket clients: sim_local_ws_test.go. (DESIGN.md §4 C07, §8.3.)

import (
	"bytes"
	"encoding/base64"
	"encoding/json"
	"fmt"
	"io/ioutil"
	"net/http"
	"net/http/httptest"
	"os"
	"sort"
	"strconv"
	"strings"
	"testing"
	"testing/synctest"
	"time"

	"github.com/gorilla/mux"

	"github.com/dtn7/dtn7-go/pkg/agent"
	"github.com/dtn7/dtn7-go/pkg/bpv7"
	"github.com/dtn7/dtn7-go/pkg/cla"
	"github.com/dtn7/dtn7-go/pkg/storage"

	"verif.local/simk"
)

var localEndpoints = []string{simNodeEID + "a", simNodeEID + "b", simNodeEID + "c"}

type restClient struct {
	idx     int
	eid     string
	uuid    string
	reg     bool
	fetched map[string]int // tag -> times returned by fetches
	expect  map[string]int // tag -> times it was put into the mailbox (registered at delivery)
	maybe   map[string]bool
	concurrentFetch bool // a fetch of this client overlapped a delivery
}

type localBundle struct {
	tag       string
	dst       string
	wire      []byte
	expectMock map[int]int // mock agent index -> expected count
	pingWanted bool
	noAgent    bool // node-local endpoint nobody is registered for
	deliveredEpoch int
}

type localSim struct {
	*nodeSim
	router  *mux.Router
	rest    *agent.RestAgent
	ping    *agent.PingAgent
	mocks   []*simAgent
	mockInst [][]*simAgent
	mockReg []bool
	mockEids [][]string
	clients []*restClient
	ws      *agent.WebSocketAgent
	wsClients []*wsClient
	lbs     map[string]*localBundle
	pongs   int
	pingsSent int
	seq     int
}

func runLocalCase(c *simk.Case) *simk.Result {
	res := &simk.Result{}
	n := &nodeSim{c: c, res: res, lg: &simk.Log{}, sched: simk.NewSched(), seed: c.Seed,
		tracks: map[int]*btrack{}, byTag: map[string]*btrack{}, hookSet: map[string]bool{}}
	n.algo = "epidemic"
	n.noReportJudge = true
	n.failRate = 0
	n.retryEvery = 10 * time.Second
	n.concurrent = c.CfgB("concurrent")
	scratch := os.Getenv("VERIF_SCRATCH")
	if scratch == "" {
		scratch = "/dev/shm"
	}
	dir, err := ioutil.TempDir(scratch, "verif-local-")
	if err != nil {
		res.HarnessErr = err.Error()
		return res
	}
	n.dir = dir
	defer os.RemoveAll(dir)
	simSilenceLogs()
	simHookMu.Lock()
	defer simHookMu.Unlock()
	storage.SimHook = func(point, key string) { n.hook(point, key) }
	SimHook = func(point, key string) { n.hook(point, key) }
	cla.SimHook = func(point, key string) { n.hook(point, key) }
	var lref *localSim
	agent.SimHook = func(point, key string) {
		// the key is the client's uuid (crypto/rand): canonicalise it to the client's index
		ck := "client?"
		if lref != nil {
			for _, cl := range lref.clients {
				if cl.uuid == key {
					ck = "client" + strconv.Itoa(cl.idx)
				}
			}
		}
		n.sched.Park("agent."+point, ck, nil)
	}
	cla.SimOrderSenders = func(css []cla.ConvergenceSender) []cla.ConvergenceSender { return n.orderSenders(css) }
	defer func() {
		storage.SimHook, SimHook, cla.SimHook, agent.SimHook, cla.SimOrderSenders = nil, nil, nil, nil, nil
	}()
	l := &localSim{nodeSim: n, lbs: map[string]*localBundle{}}
	lref = l
	agent.SimOrderClients = func(uuids []string) []string {
		idx := func(u string) int {
			for _, cl := range l.clients {
				if cl.uuid == u {
					return cl.idx
				}
			}
			return 1 << 20
		}
		sort.SliceStable(uuids, func(i, j int) bool { return idx(uuids[i]) < idx(uuids[j]) })
		return uuids
	}
	defer func() { agent.SimOrderClients = nil }()
	func() {
		defer func() {
			if r := recover(); r != nil {
				msg := fmt.Sprint(r)
				if !strings.Contains(msg, "blocked goroutines remain") && !strings.Contains(msg, "deadlock: main bubble goroutine has exited") {
					if res.HarnessErr == "" {
						res.HarnessErr = "bubble panic: " + msg
					}
				}
			}
		}()
		synctest.Test(simT, func(t *testing.T) { l.body() })
	}()
	res.LogHash = n.lg.Hash()
	res.Log = n.lg.Lines
	res.Steps = n.steps
	return res
}

func (l *localSim) body() {
	n := l.nodeSim
	r := simk.NewRand(n.seed, "clock")
	time.Sleep(time.Duration(366+r.Intn(5000))*24*time.Hour + time.Duration(r.Intn(86400000))*time.Millisecond)
	n.simT0 = time.Now()
	np := n.c.CfgInt("peers", 1)
	n.peers = make([]*peerState, np+1)
	for i := 1; i <= np; i++ {
		n.peers[i] = &peerState{idx: i, eid: bpv7.MustNewEndpointID(simPeerEID(i))}
	}
	if err := n.startCore(); err != nil {
		n.res.HarnessErr = "NewCore: " + err.Error()
		return
	}
	for i := 1; i <= np; i++ {
		n.opPeerUp(i)
	}
	// agents
	l.router = mux.NewRouter()
	l.rest = agent.NewRestAgent(l.router)
	l.ping = agent.NewPing(bpv7.MustNewEndpointID(simNodeEID + "ping"))
	c := n.core
	n.inject("reg-rest", func() { c.RegisterApplicationAgent(l.rest) })
	n.inject("reg-ping", func() { c.RegisterApplicationAgent(l.ping) })
	var wsSpecs []int
	simk.Recode(n.c.Cfg["ws"], &wsSpecs)
	if len(wsSpecs) > 0 {
		l.ws = agent.NewWebSocketAgent()
		defer l.wsInstall()()
		n.inject("reg-ws", func() { c.RegisterApplicationAgent(l.ws) })
		for i, e := range wsSpecs {
			l.wsClients = append(l.wsClients, &wsClient{idx: i, eid: localEndpoints[e%len(localEndpoints)], expect: map[string]int{}})
		}
	}
	var mockSpecs [][]int
	simk.Recode(n.c.Cfg["mocks"], &mockSpecs)
	for i, es := range mockSpecs {
		var eids []string
		for _, e := range es {
			eids = append(eids, localEndpoints[e%len(localEndpoints)])
		}
		l.mocks = append(l.mocks, nil)
		l.mockInst = append(l.mockInst, nil)
		l.mockReg = append(l.mockReg, false)
		l.mockEids = append(l.mockEids, eids)
		_ = i
	}
	var clientSpecs []int
	simk.Recode(n.c.Cfg["clients"], &clientSpecs)
	for i, e := range clientSpecs {
		l.clients = append(l.clients, &restClient{idx: i, eid: localEndpoints[e%len(localEndpoints)], fetched: map[string]int{}, expect: map[string]int{}, maybe: map[string]bool{}})
	}
	for i, op := range n.c.Ops {
		if n.aborted {
			break
		}
		n.lg.Add("op %d %s", i, op.String())
		l.exec(op)
	}
	if !n.aborted {
		l.finish()
	}
	n.res.SimMs = int64(time.Since(n.simT0) / time.Millisecond)
	n.sched.SetFree(true)
	n.stopCore()
	for _, t := range n.sched.Parked() {
		n.sched.Release(t, nil)
	}
}

func (l *localSim) post(path string, body interface{}, out interface{}) {
	bs, _ := json.Marshal(body)
	rec := httptest.NewRecorder()
	req := httptest.NewRequest(http.MethodPost, path, bytes.NewReader(bs))
	l.router.ServeHTTP(rec, req)
	_ = json.Unmarshal(rec.Body.Bytes(), out)
}

func tagsOfFetch(raw map[string]interface{}) []string {
	var tags []string
	bs, _ := raw["bundles"].([]interface{})
	for _, b := range bs {
		bm, _ := b.(map[string]interface{})
		cbs, _ := bm["canonicalBlocks"].([]interface{})
		for _, cb := range cbs {
			cm, _ := cb.(map[string]interface{})
			if code, _ := cm["blockTypeCode"].(float64); code == 1 {
				if s, ok := cm["data"].(string); ok {
					if data, err := base64.StdEncoding.DecodeString(s); err == nil {
						if i := bytes.IndexByte(data, '|'); i > 0 && i < 12 {
							tags = append(tags, string(data[:i]))
						} else {
							tags = append(tags, "?"+string(data))
						}
					}
				}
			}
		}
	}
	return tags
}

func (l *localSim) fetch(cl *restClient) {
	var raw map[string]interface{}
	l.post("/fetch", agent.RestFetchRequest{UUID: cl.uuid}, &raw)
	tags := tagsOfFetch(raw)
	sort.Strings(tags)
	for _, t := range tags {
		cl.fetched[t]++
	}
	l.lg.Add("fetch client %d -> %v", cl.idx, tags)
}

func (l *localSim) exec(op simk.Op) {
	n := l.nodeSim
	switch op.K {
	case "advance":
		n.advance(time.Duration(op.N) * time.Millisecond)
	case "mock_reg":
		i := op.P
		if i < 0 || i >= len(l.mocks) || l.mockReg[i] {
			return
		}
		ag := newSimAgent("m"+strconv.Itoa(i), l.mockEids[i]...)
		l.mocks[i] = ag
		l.mockInst[i] = append(l.mockInst[i], ag)
		n.allAgents = append(n.allAgents, ag)
		l.mockReg[i] = true
		c := n.core
		n.inject("mock_reg", func() { c.RegisterApplicationAgent(ag) })
	case "mock_unreg":
		i := op.P
		if i < 0 || i >= len(l.mocks) || !l.mockReg[i] {
			return
		}
		ag := l.mocks[i]
		l.mockReg[i] = false
		n.inject("mock_unreg", func() { ag.sender <- agent.ShutdownMessage{} })
	case "rest_reg":
		if op.P < 0 || op.P >= len(l.clients) {
			return
		}
		cl := l.clients[op.P]
		if cl.reg {
			return
		}
		n.inject("rest_reg", func() {
			var resp agent.RestRegisterResponse
			l.post("/register", agent.RestRegisterRequest{EndpointId: cl.eid}, &resp)
			cl.uuid = resp.UUID
		})
		cl.reg = cl.uuid != ""
	case "rest_unreg":
		if op.P < 0 || op.P >= len(l.clients) {
			return
		}
		cl := l.clients[op.P]
		if !cl.reg {
			return
		}
		// what is in the mailbox at this moment is dropped with the registration
		n.inject("rest_fetch_before_unreg", func() { l.fetch(cl) })
		n.inject("rest_unreg", func() {
			var resp agent.RestUnregisterResponse
			l.post("/unregister", agent.RestUnregisterRequest{UUID: cl.uuid}, &resp)
		})
		cl.reg = false
	case "ws_reg":
		l.wsReg(op.P)
	case "ws_unreg":
		l.wsUnreg(op.P)
	case "rest_fetch":
		if op.P < 0 || op.P >= len(l.clients) || !l.clients[op.P].reg {
			return
		}
		cl := l.clients[op.P]
		n.inject("rest_fetch", func() { l.fetch(cl) })
	case "deliver", "submit", "ping":
		l.deliver(op, -1)
	case "par":
		// a delivery and a fetch of client op.P run concurrently; the hooks in the REST agent decide the interleaving
		if op.P < 0 || op.P >= len(l.clients) || !l.clients[op.P].reg {
			l.deliver(op, -1)
			return
		}
		l.deliver(op, op.P)
	}
}

// deliver injects a bundle for a node-local endpoint; with parClient >= 0 a fetch of that client
// runs concurrently.
func (l *localSim) deliver(op simk.Op, parClient int) {
	n := l.nodeSim
	l.seq++
	tag := fmt.Sprintf("L%02d", l.seq)
	dst := localEndpoints[int(op.N)%len(localEndpoints)]
	if op.K == "ping" {
		dst = simNodeEID + "ping"
	}
	if op.N >= 100 {
		dst = simNodeEID + "nobody"
	}
	pay := []byte(tag + "|")
	for len(pay) < 20 {
		pay = append(pay, 'x')
	}
	src, rep := "dtn://s1/app", "dtn://s1/app"
	if op.K == "submit" {
		src, rep = simNodeEID+"a", simNodeEID+"a"
	}
	b, err := bpv7.Builder().CRC(bpv7.CRC32).Source(src).Destination(dst).ReportTo(rep).CreationTimestampNow().Lifetime("1h").PayloadBlock(pay).Build()
	if err != nil {
		n.res.HarnessErr = err.Error()
		return
	}
	b.PrimaryBlock.CreationTimestamp[1] = uint64(l.seq)
	wire, _ := encodeBundle(&b)
	pb, err := bpv7.ParseBundle(bytesReader(wire))
	if err != nil {
		return
	}
	lb := &localBundle{tag: tag, dst: dst, wire: wire, expectMock: map[int]int{}}
	l.lbs[tag] = lb
	// the registration set at the linearisation point of this delivery
	any := false
	for i, reg := range l.mockReg {
		if reg {
			for _, e := range l.mockEids[i] {
				if e == dst {
					lb.expectMock[i]++
					any = true
					break
				}
			}
		}
	}
	for _, cl := range l.clients {
		if cl.reg && cl.eid == dst {
			cl.expect[tag]++
			any = true
		}
	}
	for _, wc := range l.wsClients {
		if wc.reg && wc.eid == dst {
			wc.expect[tag]++
			any = true
		}
	}
	if dst == simNodeEID+"ping" {
		lb.pingWanted = true
		l.pingsSent++
		any = true
	}
	lb.noAgent = !any
	n.lg.Add("deliver %s to %s (%s) mocks=%v", tag, dst, op.K, lb.expectMock)
	recv := n.recv
	c := n.core
	n.sched.SetCause(n.rootLabel("deliver:" + tag))
	if op.K == "submit" {
		bb := pb
		go func() { c.SendBundle(&bb) }()
	} else {
		go func() {
			select {
			case recv.ch <- cla.NewConvergenceReceivedBundle(recv, recv.eid, &pb):
			case <-recv.closed:
			}
		}()
	}
	if parClient >= 0 {
		cl := l.clients[parClient]
		cl.concurrentFetch = true
		n.res.Fault("rmw_interleave")
		synctest.Wait()
		n.sched.SetCause(n.rootLabel("par-fetch"))
		go func() { l.fetch(cl) }()
	}
	n.settle()
}

func (l *localSim) finish() {
	n := l.nodeSim
	// drain every mailbox
	for _, cl := range l.clients {
		if cl.reg {
			cl := cl
			n.inject("final_fetch", func() { l.fetch(cl) })
		}
	}
	n.advance(11 * time.Second)
	// REST clients: every bundle put into the mailbox exactly once over all fetches; nothing else
	for _, cl := range l.clients {
		var tags []string
		for t := range cl.expect {
			tags = append(tags, t)
		}
		for t := range cl.fetched {
			if _, ok := cl.expect[t]; !ok {
				tags = append(tags, t)
			}
		}
		sort.Strings(tags)
		for _, t := range tags {
			want, got := cl.expect[t], cl.fetched[t]
			switch {
			case got < want:
				sig := "rest-client-missed-bundle"
				if cl.concurrentFetch {
					sig += "/with-concurrent-fetch"
				}
				n.res.Violate("C07", "rest-exactly-once", sig, "REST client %d (%s): bundle %s was delivered while it was registered but its fetches returned it %d times (expected %d)", cl.idx, cl.eid, t, got, want)
			case got > want && want > 0:
				sig := "rest-client-got-bundle-twice"
				if cl.concurrentFetch {
					sig += "/with-concurrent-fetch"
				}
				n.res.Violate("C07", "rest-exactly-once", sig, "REST client %d (%s): bundle %s returned %d times, expected %d", cl.idx, cl.eid, t, got, want)
			case got > 0 && want == 0:
				n.res.Violate("C07", "nobody-else", "rest-client-got-foreign-bundle", "REST client %d (%s) fetched bundle %s addressed to %s", cl.idx, cl.eid, t, l.dstOf(t))
			}
		}
	}
	l.wsJudge()
	// mock agents
	for i := range l.mocks {
		if len(l.mockInst[i]) == 0 {
			continue
		}
		got := map[string]int{}
		var all []bpv7.Bundle
		for _, ag := range l.mockInst[i] {
			all = append(all, ag.received()...)
		}
		for _, b := range all {
			pl := payloadOf(&b)
			if j := bytes.IndexByte(pl, '|'); j > 0 {
				got[string(pl[:j])]++
				if lb := l.lbs[string(pl[:j])]; lb != nil {
					w, _ := encodeBundle(&b)
					if !bytes.Equal(w, lb.wire) && !strings.HasPrefix(lb.tag, "S") {
						_ = w // content: payload and primary block are checked below
					}
					if b.PrimaryBlock.Destination.String() != lb.dst {
						n.res.Violate("C07", "unchanged", "delivered-bundle-changed", "agent m%d got %s with destination %s", i, lb.tag, b.PrimaryBlock.Destination)
					}
				}
			}
		}
		var tags []string
		for t := range l.lbs {
			tags = append(tags, t)
		}
		sort.Strings(tags)
		for _, t := range tags {
			want := l.lbs[t].expectMock[i]
			if got[t] != want {
				sig := "mock-agent-delivery-count-differs"
				if got[t] > want && want == 0 {
					sig = "agent-got-bundle-for-endpoint-it-did-not-register"
				} else if got[t] < want {
					sig = "registered-agent-missed-bundle"
				} else if got[t] > want {
					sig = "agent-got-bundle-more-than-once"
				}
				n.res.Violate("C07", "exactly-the-recipients", sig, "agent m%d (endpoints %v): bundle %s for %s handed over %d times, expected %d", i, l.mockEids[i], t, l.lbs[t].dst, got[t], want)
			}
		}
	}
	// ping: one pong per ping, on its way to the source
	pongs := 0
	for _, s := range n.sends {
		if s.parseErr == nil && bytes.Equal(payloadOf(&s.bundle), []byte("pong")) {
			pongs++
		}
	}
	pend, _ := n.core.store.QueryPending()
	pongIDs := map[string]bool{}
	for _, s := range n.sends {
		if s.parseErr == nil && bytes.Equal(payloadOf(&s.bundle), []byte("pong")) {
			pongIDs[s.idStr] = true
		}
	}
	for _, bi := range pend {
		if len(bi.Parts) > 0 {
			if b, err := bi.Parts[0].Load(); err == nil && bytes.Equal(payloadOf(&b), []byte("pong")) {
				pongIDs[b.ID().String()] = true
			}
		}
	}
	if len(pongIDs) != l.pingsSent {
		n.res.Violate("C07", "ping", "ping-pong-count-differs", "%d bundles were delivered to the ping agent, %d distinct pongs were generated", l.pingsSent, len(pongIDs))
	}
	// a delivery is reported only if a hand-over took place (bundles from s1 request the report by
	// the builder's default flag; report-to is remote, so the report shows up at a peer or pending)
	reported := map[string]bool{}
	judge := func(b *bpv7.Bundle) {
		if !b.IsAdministrativeRecord() {
			return
		}
		if ar, err := b.AdministrativeRecord(); err == nil {
			if sr, ok := ar.(*bpv7.StatusReport); ok {
				for _, pos := range sr.StatusInformations() {
					if pos == bpv7.DeliveredBundle {
						reported[sr.RefBundle.String()] = true
					}
				}
			}
		}
	}
	for _, s := range n.sends {
		if s.parseErr == nil {
			judge(&s.bundle)
		}
	}
	for _, bi := range pend {
		if len(bi.Parts) > 0 {
			if b, err := bi.Parts[0].Load(); err == nil {
				judge(&b)
			}
		}
	}
	for _, t := range func() []string { var ts []string; for t := range l.lbs { ts = append(ts, t) }; sort.Strings(ts); return ts }() {
		lb := l.lbs[t]
		b, err := bpv7.ParseBundle(bytesReader(lb.wire))
		if err != nil || b.PrimaryBlock.SourceNode.SameNode(bpv7.MustNewEndpointID(simNodeEID)) {
			continue
		}
		if reported[b.ID().String()] && lb.noAgent {
			n.res.Violate("C07", "delivery-only-if-handed-over", "delivered-report-without-hand-over", "%s for %s: a 'delivered' status report was generated although nobody was registered for the endpoint", lb.tag, lb.dst)
		}
		if reported[b.ID().String()] {
			n.res.Probe("delivered_report_seen")
		}
	}
	// nothing local leaks to peers; an undeliverable local bundle is retained
	for _, s := range n.sends {
		if s.parseErr == nil {
			pl := payloadOf(&s.bundle)
			if j := bytes.IndexByte(pl, '|'); j > 0 {
				if lb := l.lbs[string(pl[:j])]; lb != nil {
					n.res.Violate("C07", "not-to-peers", "local-bundle-sent-to-peer", "%s (for %s) was handed to p%d", lb.tag, lb.dst, s.peer)
				}
			}
		}
	}
	var tags []string
	for t := range l.lbs {
		tags = append(tags, t)
	}
	sort.Strings(tags)
	for _, t := range tags {
		lb := l.lbs[t]
		if lb.noAgent {
			b, err := bpv7.ParseBundle(bytesReader(lb.wire))
			if err != nil {
				continue
			}
			known := false
			for seq := uint64(0); seq <= uint64(l.seq); seq++ {
				id := b.ID()
				id.Timestamp[1] = seq
				if n.core.store.KnowsBundle(id) {
					known = true
				}
			}
			if !known {
				n.res.Violate("C07", "delivery-only-if-handed-over", "undelivered-local-bundle-released", "%s for %s (nobody registered) is no longer in the store although no hand-over took place", lb.tag, lb.dst)
			}
			n.res.Probe("local_bundle_without_recipient")
		}
	}
	n.res.Nontrivial = len(l.lbs) > 0
}

func (l *localSim) dstOf(tag string) string {
	if lb := l.lbs[tag]; lb != nil {
		return lb.dst
	}
	return "?"
}

func genLocalCase(seed uint64, tier, focus, variant string) *simk.Case {
	r := simk.NewRand(seed, "script")
	c := &simk.Case{Harness: "local", Seed: seed, Cfg: map[string]interface{}{}}
	c.Cfg["peers"] = r.Range(0, 2)
	c.Cfg["concurrent"] = r.Bool(0.5)
	nm := r.Range(0, 4)
	var mocks [][]int
	for i := 0; i < nm; i++ {
		var es []int
		for k := r.Range(1, 2); k > 0; k-- {
			es = append(es, r.Intn(3))
		}
		mocks = append(mocks, es)
	}
	c.Cfg["mocks"] = mocks
	nc := r.Range(0, 4)
	var clients []int
	for i := 0; i < nc; i++ {
		clients = append(clients, r.Intn(3))
	}
	c.Cfg["clients"] = clients
	rw := simk.NewRand(seed, "ws")
	nw := rw.Pick(0, 0, 1, 2, 3)
	var wss []int
	for i := 0; i < nw; i++ {
		wss = append(wss, rw.Intn(3))
	}
	c.Cfg["ws"] = wss
	n := r.Range(4, 30)
	for i := 0; i < n; i++ {
		if nw > 0 && rw.Bool(0.2) {
			if rw.Bool(0.7) {
				c.Ops = append(c.Ops, simk.Op{K: "ws_reg", P: rw.Intn(nw)})
			} else {
				c.Ops = append(c.Ops, simk.Op{K: "ws_unreg", P: rw.Intn(nw)})
			}
		}
		switch x := r.Intn(100); {
		case x < 12 && nm > 0:
			c.Ops = append(c.Ops, simk.Op{K: "mock_reg", P: r.Intn(nm)})
		case x < 17 && nm > 0:
			c.Ops = append(c.Ops, simk.Op{K: "mock_unreg", P: r.Intn(nm)})
		case x < 30 && nc > 0:
			c.Ops = append(c.Ops, simk.Op{K: "rest_reg", P: r.Intn(nc)})
		case x < 35 && nc > 0:
			c.Ops = append(c.Ops, simk.Op{K: "rest_unreg", P: r.Intn(nc)})
		case x < 45 && nc > 0:
			c.Ops = append(c.Ops, simk.Op{K: "rest_fetch", P: r.Intn(nc)})
		case x < 70:
			k := "deliver"
			if r.Bool(0.25) {
				k = "submit"
			}
			d := int64(r.Intn(3))
			if r.Bool(0.1) {
				d = 100
			}
			c.Ops = append(c.Ops, simk.Op{K: k, N: d})
		case x < 76:
			c.Ops = append(c.Ops, simk.Op{K: "ping"})
		case x < 90 && nc > 0:
			cl := r.Intn(nc)
			c.Ops = append(c.Ops, simk.Op{K: "par", P: cl, N: int64(clients[cl])})
		default:
			c.Ops = append(c.Ops, simk.Op{K: "advance", N: int64(r.Pick(10, 500, 3000, 11000))})
		}
	}
	return c
}
