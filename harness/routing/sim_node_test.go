//go:debug asynctimerchan=0

package routing

// H-node: one real routing.Core (store, cron, CLA manager, agent manager, routing algorithm)
// inside a synctest bubble, surrounded by scripted peers at the cla.Convergence* seam.
// See /verif/DESIGN.md §3 and §4.

import (
	"bytes"
	"encoding/json"
	"errors"
	"fmt"
	"io/ioutil"
	"os"
	"sort"
	"strconv"
	"strings"
	"sync"
	"testing"
	"testing/synctest"
	"time"

	log "github.com/sirupsen/logrus"

	"github.com/dtn7/dtn7-go/pkg/agent"
	"github.com/dtn7/dtn7-go/pkg/bpv7"
	"github.com/dtn7/dtn7-go/pkg/cla"
	"github.com/dtn7/dtn7-go/pkg/storage"

	"verif.local/simk"
)

const simNodeEID = "dtn://n0/"

func simPeerEID(i int) string { return fmt.Sprintf("dtn://p%d/", i) }

// UBlock describes a block of a type unknown to the node.
type UBlock struct {
	Type  uint64 `json:"type"`
	Flags uint64 `json:"flags"`
	Len   int    `json:"len"`
}

// BSpec describes a workload bundle; it is built with the real builder when its op executes.
type BSpec struct {
	Tag      string   `json:"tag"`
	Src      string   `json:"src"`
	Dst      string   `json:"dst"`
	ReportTo string   `json:"report_to,omitempty"`
	Flags    uint64   `json:"flags,omitempty"`
	LifeMs   uint64   `json:"life_ms"`
	CT       string   `json:"ct"`              // "now" | "zero" | "past:<ms>" | "future:<ms>"
	Seq      uint64   `json:"seq,omitempty"`   // sequence number (delivered bundles only)
	HopLimit int      `json:"hop_limit"`       // -1: no hop count block
	HopCount int      `json:"hop_count"`       //
	AgeMs    int64    `json:"age_ms"`          // -1: no age block
	Prev     int      `json:"prev"`            // previous node: peer index, 0 none, -1 some unknown node
	PayLen   int      `json:"pay_len"`         //
	CRC      int      `json:"crc"`             // 0,1,2
	Unknown  []UBlock `json:"unknown,omitempty"`
	Spray    int      `json:"spray,omitempty"` // copies announced in a binary spray block (0: none)
	Renumber bool     `json:"renumber,omitempty"` // the sender numbered its extension blocks in descending order (valid, unusual)
	FragOff  int      `json:"frag_off,omitempty"`
	FragTot  int      `json:"frag_tot,omitempty"` // >0: bundle is a fragment
}

type nodeExtra struct {
	Bundles []BSpec `json:"bundles"`
}

// sendRec is one invocation of ConvergenceSender.Send on a scripted peer.
type sendRec struct {
	peer      int
	inst      *simPeer
	wire      []byte
	bundle    bpv7.Bundle
	parseErr  error
	tag       string // payload tag of workload bundles, "" otherwise
	kind      string // "data" | "admin" | "meta" | "other"
	tInvoke   time.Time
	tDone     time.Time
	outcome   string // "" while parked, "ok", "fail"
	rootEpoch int    // epoch of the event that (transitively) caused this send
	seenEpoch int
	doneEpoch int
	incarn    int
	seen      bool
	seq       int
	idStr     string
}

// btrack is the harness's record of one workload bundle.
type btrack struct {
	idx        int
	spec       *BSpec
	bundle     bpv7.Bundle // as injected
	wire       []byte      // its encoding as injected
	id         bpv7.BundleID
	injected   bool
	via        string // "submit-core" | "submit-agent" | "deliver"
	fromPeer   int
	tAccept    time.Time
	epochAcc   int
	life       time.Duration
	expiry     time.Time // instant at which the lifetime ends
	localDst   bool
	refused    string // cause if the node is entitled to refuse/delete
	dupOf      int    // index of an earlier injection with the same bundle ID (0: none)
	sends      []*sendRec
	agentRecv  int
	incarnAcc  int
	reinjected int
	absentEpoch int
	lostPending bool // in the store but no longer flagged pending (reported once under C05); nothing else is judged for it
	dtlsrJudged bool
	spray       *sprayState
	subSeq      int // order of injection
	reports     map[string]int
	reportedDeleted bool
	assignedID  string // ID the node filed a locally submitted bundle under (from the store or the wire)
	overlapRMW  bool         // two read-modify-write sequences on this bundle's routing state overlapped
	noSpread    map[int]bool // peers that came up while the destination was connected (direct delivery had precedence)
}

type peerState struct {
	idx      int
	eid      bpv7.EndpointID
	up       bool
	inst     *simPeer
	upEpoch  int // epoch of the last peer_up
	sensor   bool
	everUp   bool
	appearedUnlisted int // epoch in which PeerAppeared overtook the adapter's registration
	instances int
	insts    []*simPeer // every adapter instance of this incarnation (the manager may keep and restart an older one)
}

// simPeer is a scripted ConvergenceSender (one instance per registration, like a dialled client).
type simPeer struct {
	n       *nodeSim
	ps      *peerState
	ch      chan cla.ConvergenceStatus
	addr    string
	mu      sync.Mutex
	started bool
	closed  chan struct{}
	starts  int
	closes  int
	dead    bool
	serial  int
}

func (p *simPeer) Start() (error, bool) {
	// a schedule point: whether a dispatch running at the same instant (cron tick = manager retry
	// tick) sees this adapter active is decided by the scheduler, not by the Go runtime
	// (only when the start would succeed: failing starts of waiting adapters on a retry tick come in
	// sync.Map order, which the harness does not own, and have no effect)
	if !p.dead && p.ps.up {
		p.n.sched.Park("start", "p"+strconv.Itoa(p.ps.idx), nil)
	}
	p.mu.Lock()
	defer p.mu.Unlock()
	p.starts++
	if p.dead || !p.ps.up {
		return errors.New("sim: peer unreachable"), true
	}
	p.started = true
	p.closed = make(chan struct{})
	closed := p.closed
	go func() {
		// like a real client's handler goroutine, the adapter announces its peer right after the
		// start; whether that announcement overtakes the manager's own bookkeeping (the adapter is
		// entered into the manager's table only after Start returned) is a schedule decision
		p.n.sched.Park("zappear", "p"+strconv.Itoa(p.ps.idx), p)
		select {
		case p.ch <- cla.NewConvergencePeerAppeared(p, p.ps.eid):
		case <-closed:
		}
	}()
	return nil, true
}

func (p *simPeer) Close() error {
	p.mu.Lock()
	defer p.mu.Unlock()
	p.closes++
	if p.started {
		p.started = false
		close(p.closed)
	}
	return nil
}

func (p *simPeer) isStarted() bool {
	p.mu.Lock()
	defer p.mu.Unlock()
	return p.started
}

func (p *simPeer) Channel() chan cla.ConvergenceStatus { return p.ch }
func (p *simPeer) Address() string                     { return p.addr }
func (p *simPeer) IsPermanent() bool                   { return false }
func (p *simPeer) GetPeerEndpointID() bpv7.EndpointID  { return p.ps.eid }
func (p *simPeer) String() string                      { return fmt.Sprintf("sim-peer-%d", p.ps.idx) }

// Send serialises the bundle exactly as the real convergence layers do, then parks until the
// scheduler releases it with an outcome.
func (p *simPeer) Send(b bpv7.Bundle) error {
	var buf bytes.Buffer
	rec := &sendRec{peer: p.ps.idx, inst: p, tInvoke: time.Now()}
	// In race-detector runs the serialisation is ordered by a harness lock: the per-peer goroutines
	// of one forward() all serialise the same shared blocks (MarshalCbor writes the CRC into the
	// block), which the detector reports at once and which would mask the races C19 is about.
	if p.n.raceBurst {
		simMarshalMu.Lock()
	}
	err := b.MarshalCbor(&buf)
	if p.n.raceBurst {
		simMarshalMu.Unlock()
	}
	if err != nil {
		rec.parseErr = fmt.Errorf("marshal: %v", err)
	}
	rec.wire = append([]byte(nil), buf.Bytes()...)
	if p.dead {
		return errors.New("sim: dead incarnation")
	}
	v := p.n.sched.Park("send", "p"+strconv.Itoa(p.ps.idx), rec)
	if v == nil {
		return errors.New("sim: send aborted")
	}
	if v.(string) == "ok" {
		return nil
	}
	return errors.New("sim: transmission failed")
}

// simRecv is the scripted ConvergenceReceiver through which peers hand bundles to the node.
type simRecv struct {
	ch      chan cla.ConvergenceStatus
	eid     bpv7.EndpointID
	started bool
	closed  chan struct{}
	mu      sync.Mutex
}

func (r *simRecv) Start() (error, bool) {
	r.mu.Lock()
	defer r.mu.Unlock()
	r.started = true
	r.closed = make(chan struct{})
	return nil, true
}
func (r *simRecv) Close() error {
	r.mu.Lock()
	defer r.mu.Unlock()
	if r.started {
		r.started = false
		close(r.closed)
	}
	return nil
}
func (r *simRecv) Channel() chan cla.ConvergenceStatus { return r.ch }
func (r *simRecv) Address() string                     { return "sim://recv" }
func (r *simRecv) IsPermanent() bool                   { return true }
func (r *simRecv) GetEndpointID() bpv7.EndpointID      { return r.eid }
func (r *simRecv) String() string                      { return "sim-recv" }

// simAgent is a mock application agent recording everything it is handed.
type simAgent struct {
	name     string
	eids     []bpv7.EndpointID
	receiver chan agent.Message
	sender   chan agent.Message
	mu       sync.Mutex
	got      []bpv7.Bundle
}

func newSimAgent(name string, eids ...string) *simAgent {
	a := &simAgent{name: name, receiver: make(chan agent.Message), sender: make(chan agent.Message)}
	for _, e := range eids {
		a.eids = append(a.eids, bpv7.MustNewEndpointID(e))
	}
	go func() {
		for m := range a.receiver {
			switch m := m.(type) {
			case agent.BundleMessage:
				a.mu.Lock()
				a.got = append(a.got, m.Bundle)
				a.mu.Unlock()
			case agent.ShutdownMessage:
				return
			}
		}
	}()
	return a
}
func (a *simAgent) Endpoints() []bpv7.EndpointID      { return a.eids }
func (a *simAgent) MessageReceiver() chan agent.Message { return a.receiver }
func (a *simAgent) MessageSender() chan agent.Message   { return a.sender }
func (a *simAgent) received() []bpv7.Bundle {
	a.mu.Lock()
	defer a.mu.Unlock()
	return append([]bpv7.Bundle(nil), a.got...)
}

// nodeSim is one run.
type nodeSim struct {
	c     *simk.Case
	ex    nodeExtra
	res   *simk.Result
	lg    *simk.Log
	sched *simk.Sched
	seed  uint64
	algo  string
	focus string

	dir       string
	core      *Core
	coreStart time.Time
	incarn    int
	recv      *simRecv
	peers     []*peerState // 1-based; [0] unused
	agents    []*simAgent
	appAgent  *simAgent

	tracks  map[int]*btrack
	byTag   map[string]*btrack
	sends   []*sendRec
	epoch   int
	steps   int
	simT0   time.Time
	opIdx   int

	concurrent bool
	hookSet    map[string]bool
	failRate   float64
	faultsOff  bool
	faultsOffEpoch int
	serialNo   int

	retryEvery time.Duration
	raceHeld   map[*simk.Task]int
	finishing  bool
	raceBurst  bool
	noReportJudge bool
	dst        *dtlsrState
	pst        *prophetState
	overlapKeys map[string]bool // store keys on which two read-modify-write sequences overlapped (also untracked bundles)
	pstBorn time.Time // when the current incarnation started (zero: first incarnation)
	vecSeq     int
	emitted    map[string]bool
	trackSeq   int
	reportsJudged map[string]bool
	allAgents  []*simAgent
	lastReleased string
	aborted    bool
}

var simCurrent *nodeSim
var simMarshalMu sync.Mutex
var simHookMu sync.Mutex

func (n *nodeSim) routingConf() RoutingConf {
	rc := RoutingConf{Algorithm: n.algo}
	switch n.algo {
	case "spray", "binary_spray":
		rc.SprayConf = SprayConfig{Multiplicity: uint64(n.c.CfgInt("spray_l", 4))}
	case "prophet":
		rc.ProphetConf = ProphetConfig{
			PInit: n.c.CfgF("p_init", 0.75), Beta: n.c.CfgF("beta", 0.25), Gamma: n.c.CfgF("gamma", 0.98),
			AgeInterval: n.c.CfgS("age_interval", "30s")}
	case "dtlsr":
		rc.DTLSRConf = DTLSRConfig{RecomputeTime: n.c.CfgS("recompute", "5s"), BroadcastTime: n.c.CfgS("broadcast", "10s"), PurgeTime: n.c.CfgS("purge", "10m")}
	case "sensor-mule":
		rc.SensorMuleConf = SensorNetworkMuleConfig{Algorithm: &RoutingConf{Algorithm: "epidemic"}, SensorNodeRegex: n.c.CfgS("sensor_regex", "^dtn://p[12]/")}
	}
	return rc
}

func (n *nodeSim) startCore() error {
	var c *Core
	var err error
	done := make(chan struct{})
	n.sched.SetCause(n.rootLabel("start"))
	go func() {
		c, err = NewCore(n.dir, bpv7.MustNewEndpointID(simNodeEID), n.c.CfgB("inspect_all"), n.routingConf(), nil)
		close(done)
	}()
	n.settle()
	select {
	case <-done:
	default:
		return errors.New("NewCore did not return")
	}
	if err != nil {
		return err
	}
	n.core = c
	n.coreStart = time.Now()
	n.incarn++
	n.recv = &simRecv{ch: make(chan cla.ConvergenceStatus), eid: bpv7.MustNewEndpointID(simNodeEID)}
	n.inject("reg-recv", func() { c.RegisterConvergable(n.recv) })
	n.appAgent = newSimAgent("app", simNodeEID+"app", simNodeEID+"app2")
	n.allAgents = append(n.allAgents, n.appAgent)
	n.inject("reg-agent", func() { c.RegisterApplicationAgent(n.appAgent) })
	return nil
}

func (n *nodeSim) stopCore() {
	c := n.core
	if c == nil {
		return
	}
	n.inject("close", func() {
		c.Close()
		_ = c.agentManager.Close()
	})
	n.core = nil
	for _, ps := range n.peers[1:] {
		for _, in := range ps.insts {
			in.dead = true
		}
		ps.inst = nil
		ps.insts = nil
	}
}

func (n *nodeSim) rootLabel(what string) string {
	n.epoch++
	return fmt.Sprintf("e%06d.%s", n.epoch, what)
}

// inject runs f on a fresh goroutine (the driver never executes system code itself) and settles.
func (n *nodeSim) inject(what string, f func()) {
	n.sched.SetCause(n.rootLabel(what))
	go f()
	n.settle()
}

func labelEpoch(label string) int {
	if len(label) < 7 || label[0] != 'e' {
		return 0
	}
	v, _ := strconv.Atoi(label[1:7])
	return v
}

// settle: release parked tasks one at a time until the system is quiescent with nothing parked.
func (n *nodeSim) settle() {
	for {
		synctest.Wait()
		parked := n.sched.Parked()
		for _, t := range parked {
			if rec, ok := t.Data.(*sendRec); ok && !rec.seen {
				n.noteSend(rec, t)
			}
		}
		if len(parked) == 0 {
			return
		}
		n.noteOverlaps(parked)
		n.steps++
		if n.steps > n.stepBound() {
			if !n.aborted {
				n.aborted = true
				n.res.HarnessErr = "step bound exceeded"
			}
			n.sched.SetFree(true)
			for _, t := range parked {
				n.sched.Release(t, nil)
			}
			continue
		}
		if n.raceBurst && len(parked) == 1 && n.core != nil && !n.finishing {
			// hold a lone task for a few rounds: another task (a cron job of a later tick, the next
			// injected event) should park as well before both are released together
			if n.raceHeld == nil {
				n.raceHeld = map[*simk.Task]int{}
			}
			if n.raceHeld[parked[0]] < 3 {
				n.raceHeld[parked[0]]++
				return
			}
		}
		if n.raceBurst && len(parked) > 1 {
			// race-detector windows (C19 crash clause): release everything that is parked in one go, so that
			// the released goroutines are not ordered by the scheduler's own synchronisation
			n.res.Probe("race_window")
			for _, t := range parked {
				if rec, ok := t.Data.(*sendRec); ok {
					out := n.decideSend(rec)
					rec.outcome, rec.tDone, rec.doneEpoch = out, time.Now(), n.epoch
					n.onSendDone(rec)
					n.sched.Release(t, out)
				} else {
					if t.Point == "store.cron" && t.Key == "dtlsr_recompute" && n.algo == "prophet" {
						n.prophetOnAgeTick()
					}
					if sp, ok := t.Data.(*simPeer); ok && t.Point == "zappear" {
						n.dtlsrPeerUp(sp.ps)
					}
					n.sched.Release(t, "go")
				}
			}
			continue
		}
		t := n.pick(parked)
		if rec, ok := t.Data.(*sendRec); ok {
			out := n.decideSend(rec)
			rec.outcome = out
			rec.tDone = time.Now()
			rec.doneEpoch = n.epoch
			n.lg.Add("release send p%d %s %s -> %s", rec.peer, rec.kind, rec.tag, out)
			n.onSendDone(rec)
			n.dtlsrBroadcastSend(rec, true)
			n.sched.Release(t, out)
		} else {
			if os.Getenv("VERIF_LABELS") != "" {
				n.lg.Add("release %s", t.Label) // debugging aid: full lineage (changes the log hash)
			} else {
				n.lg.Add("release %s:%s", t.Point, shortKey(t.Key))
			}
			n.res.Probe("hook_release_" + t.Point)
			if t.Point == "zappear" {
				if sp, ok := t.Data.(*simPeer); ok {
					n.dtlsrPeerUp(sp.ps)
				}
				for _, o := range parked {
					if o.Point == "store.register.store" && o.Key == "sim://"+t.Key {
						// the peer is announced to the core before the manager lists its adapter
						if sp, ok := t.Data.(*simPeer); ok {
							sp.ps.appearedUnlisted = n.epoch
							n.res.Fault("peer_appeared_before_registration")
						}
					}
				}
			}
			if t.Point == "store.cron" && n.algo == "dtlsr" {
				n.dtlsrCron(t.Key)
			}
			if t.Point == "store.cron" && t.Key == "dtlsr_recompute" && n.algo == "prophet" {
				n.prophetOnAgeTick() // PRoPHET registers its ageing job under this name
			}
			n.sched.Release(t, "go")
		}
	}
}

// stepBound: a run that needs more scheduler steps than this is cut off as a harness error. PRoPHET histories
// with a one-second ageing interval and hours of simulated time legitimately need many (one per cron job and tick).
func (n *nodeSim) stepBound() int {
	if n.algo == "prophet" {
		return 400000
	}
	return 20000
}

// noteOverlaps records that two tasks are parked before a write of the same bundle's state.
func (n *nodeSim) noteOverlaps(parked []*simk.Task) {
	cnt := map[string]int{}
	for _, t := range parked {
		if t.Point == "store.update" || strings.HasSuffix(t.Point, ".write") {
			cnt[t.Key]++
		}
	}
	for k, c := range cnt {
		if c < 2 {
			continue
		}
		n.res.Probe("overlapping_rmw")
		if n.overlapKeys == nil {
			n.overlapKeys = map[string]bool{}
		}
		n.overlapKeys[k] = true
		for _, tr := range n.tracks {
			if tr.id.Scrub().String() == k || n.wireIDMatches(tr, k) {
				tr.overlapRMW = true
			}
		}
	}
}

func (n *nodeSim) wireIDMatches(tr *btrack, key string) bool {
	for _, s := range tr.sends {
		if s.idStr == key {
			return true
		}
	}
	return false
}

// pick chooses the next task. Serial mode is run-to-completion: the descendants of the task
// released last go first, so a logical thread finishes before another one starts and no two
// read-modify-write sections overlap. Concurrent mode mixes that with seeded random choices.
func (n *nodeSim) pick(parked []*simk.Task) *simk.Task {
	var child *simk.Task
	if n.lastReleased != "" {
		for _, t := range parked {
			if strings.HasPrefix(t.Label, n.lastReleased+">") {
				child = t
				break
			}
		}
	}
	var t *simk.Task
	switch {
	case len(parked) == 1:
		t = parked[0]
	case !n.concurrent:
		if child != nil {
			t = child
		} else {
			t = parked[0]
		}
	default:
		n.res.Probe("sched_choice_among_many")
		d := simk.Decide(n.seed, "pick", strconv.Itoa(n.steps))
		if child != nil && d%100 < 55 {
			t = child
		} else {
			t = parked[int((d>>8)%uint64(len(parked)))]
		}
	}
	n.lastReleased = t.Label
	return t
}

func shortKey(k string) string {
	if len(k) > 40 {
		return k[:40]
	}
	return k
}

func (n *nodeSim) decideSend(rec *sendRec) string {
	ps := n.peers[rec.peer]
	if !ps.up || rec.inst.dead {
		n.res.Fault("send_fail_peer_down")
		return "fail"
	}
	if n.faultsOff {
		return "ok"
	}
	att := 0
	for _, s := range n.sends {
		if s != rec && s.peer == rec.peer && s.idStr == rec.idStr && s.outcome != "" {
			att++
		}
	}
	if simk.DecideP(n.seed, n.failRate, "send", rec.idStr, strconv.Itoa(rec.peer), strconv.Itoa(att)) {
		n.res.Fault("send_fail")
		return "fail"
	}
	return "ok"
}

// noteSend registers a Send invocation the first time the driver sees it parked.
func (n *nodeSim) noteSend(rec *sendRec, t *simk.Task) {
	rec.seen = true
	rec.seq = len(n.sends)
	rec.rootEpoch = labelEpoch(t.Label)
	rec.seenEpoch = n.epoch
	rec.incarn = n.incarn
	if rec.parseErr == nil {
		b, err := bpv7.ParseBundle(bytes.NewReader(rec.wire))
		if err != nil {
			rec.parseErr = err
		} else {
			rec.bundle = b
		}
	}
	rec.kind = "other"
	if rec.parseErr == nil {
		rec.idStr = rec.bundle.ID().String()
		workload := false
		if pb, err := rec.bundle.PayloadBlock(); err == nil {
			data := pb.Value.(*bpv7.PayloadBlock).Data()
			if i := bytes.IndexByte(data, '|'); i > 0 && i < 12 && n.byTag[string(data[:i])] != nil {
				workload = true // also workload bundles that carry the administrative-record flag
			}
		}
		switch {
		case rec.bundle.IsAdministrativeRecord() && !workload:
			rec.kind = "admin"
		case rec.bundle.HasExtensionBlock(bpv7.ExtBlockTypeProphetBlock), rec.bundle.HasExtensionBlock(bpv7.ExtBlockTypeDTLSRBlock):
			rec.kind = "meta"
		default:
			if pb, err := rec.bundle.PayloadBlock(); err == nil {
				data := pb.Value.(*bpv7.PayloadBlock).Data()
				if i := bytes.IndexByte(data, '|'); i > 0 && i < 12 {
					rec.tag = string(data[:i])
					rec.kind = "data"
				}
			}
		}
	}
	n.sends = append(n.sends, rec)
	if tr := n.byTag[rec.tag]; tr != nil && rec.kind == "data" {
		tr.sends = append(tr.sends, rec)
	}
	if rec.kind == "other" && rec.parseErr == nil {
		n.reportWithoutFlag(&rec.bundle, fmt.Sprintf("handed to p%d", rec.peer))
	}
	n.lg.Add("send-invoked p%d %s %s id=%s", rec.peer, rec.kind, rec.tag, rec.idStr)
	n.dtlsrBroadcastSend(rec, false)
	if rec.kind == "meta" && n.algo == "prophet" {
		n.prophetEmission(rec)
	}
	n.onSendInvoked(rec)
}

func (n *nodeSim) hook(point, key string) {
	n.sched.Park("store."+point, key, nil)
}

// ---- bundle construction

func (n *nodeSim) buildBundle(sp *BSpec) (bpv7.Bundle, error) {
	bld := bpv7.Builder()
	switch sp.CRC {
	case 0:
		bld.CRC(bpv7.CRCNo)
	case 1:
		bld.CRC(bpv7.CRC16)
	default:
		bld.CRC(bpv7.CRC32)
	}
	bld.Source(sp.Src).Destination(sp.Dst)
	if sp.ReportTo != "" {
		bld.ReportTo(sp.ReportTo)
	}
	now := time.Now()
	switch {
	case sp.CT == "zero":
		bld.CreationTimestampEpoch()
	case strings.HasPrefix(sp.CT, "past:"):
		ms, _ := strconv.Atoi(sp.CT[5:])
		bld.CreationTimestampTime(now.Add(-time.Duration(ms) * time.Millisecond))
	case strings.HasPrefix(sp.CT, "future:"):
		ms, _ := strconv.Atoi(sp.CT[7:])
		bld.CreationTimestampTime(now.Add(time.Duration(ms) * time.Millisecond))
	default:
		bld.CreationTimestampNow()
	}
	bld.Lifetime(time.Duration(sp.LifeMs) * time.Millisecond)
	bld.BundleCtrlFlags(bpv7.BundleControlFlags(sp.Flags))
	if sp.HopLimit >= 0 {
		hc := bpv7.NewHopCountBlock(uint8(sp.HopLimit))
		hc.Count = uint8(sp.HopCount)
		bld.Canonical(hc, bpv7.ReplicateBlock)
	}
	if sp.AgeMs >= 0 {
		bld.BundleAgeBlock(uint64(sp.AgeMs))
	}
	if sp.Prev > 0 {
		bld.PreviousNodeBlock(simPeerEID(sp.Prev))
	} else if sp.Prev < 0 {
		bld.PreviousNodeBlock("dtn://x9/")
	}
	if sp.Spray > 0 {
		bld.Canonical(bpv7.NewBinarySprayBlock(uint64(sp.Spray)))
	}
	for _, u := range sp.Unknown {
		data := bytes.Repeat([]byte{0xa5}, u.Len)
		bld.Canonical(bpv7.NewGenericExtensionBlock(data, u.Type), bpv7.BlockControlFlags(u.Flags))
	}
	pay := []byte(sp.Tag + "|")
	for len(pay) < sp.PayLen {
		pay = append(pay, byte('a'+len(pay)%26))
	}
	bld.PayloadBlock(pay)
	b, err := bld.Build()
	if err != nil {
		return b, err
	}
	if sp.Seq != 0 {
		b.PrimaryBlock.CreationTimestamp[1] = sp.Seq
	}
	if sp.FragTot > 0 {
		b.PrimaryBlock.BundleControlFlags |= bpv7.IsFragment
		b.PrimaryBlock.FragmentOffset = uint64(sp.FragOff)
		b.PrimaryBlock.TotalDataLength = uint64(sp.FragTot)
	}
	if sp.Renumber {
		// another implementation's numbering: the extension blocks keep their order on the wire, their numbers are reversed
		var idx []int
		for i := range b.CanonicalBlocks {
			if b.CanonicalBlocks[i].BlockNumber != 1 {
				idx = append(idx, i)
			}
		}
		for l, r := 0, len(idx)-1; l < r; l, r = l+1, r-1 {
			b.CanonicalBlocks[idx[l]].BlockNumber, b.CanonicalBlocks[idx[r]].BlockNumber = b.CanonicalBlocks[idx[r]].BlockNumber, b.CanonicalBlocks[idx[l]].BlockNumber
		}
		for i := range b.CanonicalBlocks {
			if b.CanonicalBlocks[i].CRCType != bpv7.CRCNo {
				b.CanonicalBlocks[i].SetCRCType(b.CanonicalBlocks[i].CRCType) // forget a cached CRC
			}
		}
	}
	return b, nil
}

func bytesReader(b []byte) *bytes.Reader { return bytes.NewReader(b) }

func encodeBundle(b *bpv7.Bundle) ([]byte, error) {
	var buf bytes.Buffer
	if err := b.MarshalCbor(&buf); err != nil {
		return nil, err
	}
	return buf.Bytes(), nil
}

// ---- the run

func simSilenceLogs() {
	if os.Getenv("VERIF_SYSLOG") != "" {
		log.SetOutput(os.Stdout)
		log.SetLevel(log.DebugLevel)
		return
	}
	log.SetOutput(ioutil.Discard)
	log.SetLevel(log.PanicLevel)
}

func runNodeCase(c *simk.Case) *simk.Result {
	res := &simk.Result{}
	n := &nodeSim{c: c, res: res, lg: &simk.Log{}, sched: simk.NewSched(), seed: c.Seed,
		tracks: map[int]*btrack{}, byTag: map[string]*btrack{}, hookSet: map[string]bool{}}
	if len(c.Cfg) == 0 {
		res.HarnessErr = "empty config"
		return res
	}
	if raw, ok := c.Cfg["extra"]; ok {
		bs, _ := json.Marshal(raw)
		_ = json.Unmarshal(bs, &n.ex)
	}
	n.algo = c.CfgS("algo", "epidemic")
	n.focus = c.CfgS("focus", "")
	n.concurrent = c.CfgB("concurrent")
	n.raceBurst = os.Getenv("VERIF_RACE") != ""
	n.failRate = c.CfgF("fail_rate", 0.2)
	n.retryEvery = 10 * time.Second
	if hs, ok := c.Cfg["hooks"].([]interface{}); ok {
		for _, h := range hs {
			if s, ok := h.(string); ok {
				n.hookSet[s] = true
			}
		}
	}
	scratch := os.Getenv("VERIF_SCRATCH")
	if scratch == "" {
		scratch = "/dev/shm"
	}
	dir, err := ioutil.TempDir(scratch, "verif-node-")
	if err != nil {
		res.HarnessErr = err.Error()
		return res
	}
	n.dir = dir
	defer os.RemoveAll(dir)

	simSilenceLogs()
	simHookMu.Lock()
	defer simHookMu.Unlock()
	simCurrent = n
	storage.SimHook = func(point, key string) { n.hook(point, key) }
	SimHook = func(point, key string) { n.hook(point, key) }
	cla.SimHook = func(point, key string) { n.hook(point, key) }
	cla.SimOrderSenders = func(css []cla.ConvergenceSender) []cla.ConvergenceSender { return n.orderSenders(css) }
	defer func() {
		storage.SimHook = nil
		SimHook = nil
		cla.SimHook = nil
		cla.SimOrderSenders = nil
		simCurrent = nil
	}()

	t := simT
	func() {
		defer func() {
			if r := recover(); r != nil {
				msg := fmt.Sprint(r)
				if !strings.Contains(msg, "blocked goroutines remain") && !strings.Contains(msg, "deadlock: main bubble goroutine has exited") {
					if res.HarnessErr == "" {
						res.HarnessErr = "bubble panic: " + msg
					}
				}
			}
		}()
		synctest.Test(t, func(t *testing.T) { n.body() })
	}()

	res.LogHash = n.lg.Hash()
	res.Log = n.lg.Lines
	res.Steps = n.steps
	return res
}

var simT *testing.T

// orderSenders: the sync.Map order of the CLA manager is replaced by a seeded permutation of the
// address-sorted list, so the order is owned by the seed and explored.
func (n *nodeSim) orderSenders(css []cla.ConvergenceSender) []cla.ConvergenceSender {
	sort.SliceStable(css, func(i, j int) bool { return css[i].Address() < css[j].Address() })
	if len(css) > 1 {
		r := simk.NewRand(n.seed, "sender-order")
		p := r.Perm(len(css))
		out := make([]cla.ConvergenceSender, len(css))
		for i, j := range p {
			out[i] = css[j]
		}
		return out
	}
	return css
}

func (n *nodeSim) body() {
	// DTN time 0 has a special meaning: leave it far behind (seeded, ≥ 1 simulated year).
	r := simk.NewRand(n.seed, "clock")
	time.Sleep(time.Duration(366+r.Intn(9000))*24*time.Hour + time.Duration(r.Intn(86400000))*time.Millisecond + time.Duration(r.Intn(1000))*time.Microsecond)
	n.simT0 = time.Now()
	np := n.c.CfgInt("peers", 2)
	n.peers = make([]*peerState, np+1)
	sensorRe := n.c.CfgS("sensor_regex", "^dtn://p[12]/")
	for i := 1; i <= np; i++ {
		n.peers[i] = &peerState{idx: i, eid: bpv7.MustNewEndpointID(simPeerEID(i))}
		if n.algo == "sensor-mule" && sensorRe == "^dtn://p[12]/" && i <= 2 {
			n.peers[i].sensor = true
		}
	}
	if err := n.startCore(); err != nil {
		n.res.HarnessErr = "NewCore: " + err.Error()
		return
	}
	for i, op := range n.c.Ops {
		if n.aborted {
			break
		}
		n.opIdx = i
		n.lg.Add("op %d %s", i, op.String())
		n.exec(op)
		n.checkSettled("op " + strconv.Itoa(i))
	}
	n.finishing = true
	if !n.aborted {
		n.finale()
	}
	if n.raceBurst {
		n.res.Violations = nil // race-detector runs are judged by the detector alone
	}
	n.res.SimMs = int64(time.Since(n.simT0) / time.Millisecond)
	n.sched.SetFree(true)
	n.stopCore()
	for _, t := range n.sched.Parked() {
		n.sched.Release(t, nil)
	}
}

func (n *nodeSim) exec(op simk.Op) {
	switch op.K {
	case "submit":
		n.opSubmit(op, false)
	case "submit_agent":
		n.opSubmit(op, true)
	case "deliver":
		n.opDeliver(op)
	case "peer_up":
		n.opPeerUp(op.P)
	case "peer_down":
		n.opPeerDown(op.P)
	case "advance":
		n.advance(time.Duration(op.N) * time.Millisecond)
	case "restart":
		n.opRestart(time.Duration(op.N) * time.Millisecond)
	case "ls":
		n.execLS(op.P, int(op.M), op.N, op.X)
	case "vec":
		n.execVec(op.P, op.X, op.M != 0)
	case "set_fail":
		n.failRate = float64(op.N) / 100
	case "faults_off":
		n.faultsOff = true
		n.faultsOffEpoch = n.epoch
	default:
		n.res.HarnessErr = "unknown op " + op.K
		n.aborted = true
	}
}

func (n *nodeSim) spec(i int) *BSpec {
	if i < 0 || i >= len(n.ex.Bundles) {
		return nil
	}
	return &n.ex.Bundles[i]
}

func (n *nodeSim) track(i int, sp *BSpec, b bpv7.Bundle, via string, from int) *btrack {
	tr := n.tracks[i]
	if tr != nil {
		tr.reinjected++
		return tr
	}
	wire, _ := encodeBundle(&b)
	// the harness keeps its own deep copy (parsed from the encoding): the node mutates the
	// block slice of the bundle it is handed
	own, perr := bpv7.ParseBundle(bytes.NewReader(wire))
	if perr != nil {
		own = b
	}
	tr = &btrack{idx: i, spec: sp, bundle: own, wire: wire, id: b.ID(), injected: true, via: via, fromPeer: from,
		tAccept: time.Now(), epochAcc: n.epoch + 1, incarnAcc: n.incarn, reports: map[string]int{}}
	tr.life = time.Duration(sp.LifeMs) * time.Millisecond
	if b.PrimaryBlock.CreationTimestamp.IsZeroTime() {
		age := time.Duration(0)
		if sp.AgeMs > 0 {
			age = time.Duration(sp.AgeMs) * time.Millisecond
		}
		tr.expiry = tr.tAccept.Add(tr.life - age)
	} else {
		tr.expiry = b.PrimaryBlock.CreationTimestamp.DtnTime().Time().Add(tr.life)
		// a bundle that carries both a creation time and an age block: whichever notion of age
		// ends the lifetime first is accepted (the statement names the age only for clock-less bundles)
		if sp.AgeMs >= 0 {
			if e2 := tr.tAccept.Add(tr.life - time.Duration(sp.AgeMs)*time.Millisecond); e2.Before(tr.expiry) {
				tr.expiry = e2
			}
		}
	}
	dst := b.PrimaryBlock.Destination
	tr.localDst = dst.SameNode(bpv7.MustNewEndpointID(simNodeEID))
	for j := 0; j < i; j++ {
		if o := n.tracks[j]; o != nil && o.id.Scrub() == tr.id.Scrub() && via == "deliver" {
			tr.dupOf = j + 1
		}
	}
	n.trackSeq++
	tr.subSeq = n.trackSeq
	n.tracks[i] = tr
	n.byTag[sp.Tag] = tr
	return tr
}

func (n *nodeSim) opSubmit(op simk.Op, viaAgent bool) {
	sp := n.spec(op.B)
	if sp == nil || n.core == nil {
		return
	}
	if n.tracks[op.B] != nil {
		return // a bundle is submitted once
	}
	b, err := n.buildBundle(sp)
	if err != nil {
		n.lg.Add("build failed: %v", err)
		return
	}
	via := "submit-core"
	if viaAgent {
		via = "submit-agent"
	}
	tr := n.track(op.B, sp, b, via, 0)
	n.onAccept(tr)
	c := n.core
	bb := b
	if viaAgent {
		ag := n.appAgent
		n.inject("submit-agent:"+sp.Tag, func() { ag.sender <- agent.BundleMessage{Bundle: bb} })
	} else {
		n.inject("submit:"+sp.Tag, func() { c.SendBundle(&bb) })
	}
}

func (n *nodeSim) opDeliver(op simk.Op) {
	sp := n.spec(op.B)
	if sp == nil || n.core == nil {
		return
	}
	var wire []byte
	if old := n.tracks[op.B]; old != nil {
		// a duplicate: the very same bytes arrive again (possibly from another peer)
		if !n.live(old) {
			n.lg.Add("duplicate of %s not sent: its lifetime is over", sp.Tag)
			return
		}
		if _, there := n.storeItem(old.id); !there {
			// the node no longer holds it (delivered, forwarded and released, deleted): a fresh reception
			old.spray = nil
			old.tAccept = time.Now()
			old.epochAcc = n.epoch + 1
			old.incarnAcc = n.incarn
			old.dtlsrJudged = true
			if old.bundle.PrimaryBlock.CreationTimestamp.IsZeroTime() {
				age := time.Duration(0)
				if sp.AgeMs > 0 {
					age = time.Duration(sp.AgeMs) * time.Millisecond
				}
				old.expiry = old.tAccept.Add(old.life - age)
			} else if sp.AgeMs >= 0 {
				if e2 := old.tAccept.Add(old.life - time.Duration(sp.AgeMs)*time.Millisecond); e2.Before(old.expiry) {
					old.expiry = e2
				}
			}
			n.res.Probe("fresh_reception_of_released_bundle")
		}
		wire = old.wire
	} else {
		b, err := n.buildBundle(sp)
		if err != nil {
			n.lg.Add("build failed: %v", err)
			return
		}
		if wire, err = encodeBundle(&b); err != nil {
			n.lg.Add("encode failed: %v", err)
			return
		}
	}
	// what the node receives is exactly what a convergence layer parses off the wire
	pb, err := bpv7.ParseBundle(bytes.NewReader(wire))
	if err != nil {
		n.lg.Add("peer-side bundle does not parse (%v): not delivered", err)
		return
	}
	tr := n.track(op.B, sp, pb, "deliver", op.P)
	if tr.reinjected == 0 {
		n.onAccept(tr)
	}
	recv := n.recv
	n.inject("deliver:"+sp.Tag, func() {
		select {
		case recv.ch <- cla.NewConvergenceReceivedBundle(recv, recv.eid, &pb):
		case <-recv.closed:
		}
	})
}

func (n *nodeSim) opPeerUp(p int) {
	if p < 1 || p >= len(n.peers) || n.core == nil {
		return
	}
	ps := n.peers[p]
	if ps.up && n.connected(p) {
		return
	}
	ps.up = true
	ps.everUp = true
	ps.instances++
	n.serialNo++
	inst := &simPeer{n: n, ps: ps, ch: make(chan cla.ConvergenceStatus), addr: fmt.Sprintf("sim://p%d", p), serial: n.serialNo}
	ps.inst = inst
	ps.insts = append(ps.insts, inst)
	ps.upEpoch = n.epoch + 1
	c := n.core
	n.prophetOnPeerUp(ps)
	// (the DTLSR model learns about the neighbour when the adapter announces it: release of its zappear task)
	n.inject("peer_up:p"+strconv.Itoa(p), func() { c.RegisterConvergable(inst) })
	n.onPeerUp(ps)
}

func (n *nodeSim) opPeerDown(p int) {
	if p < 1 || p >= len(n.peers) || n.core == nil {
		return
	}
	ps := n.peers[p]
	if !ps.up {
		return
	}
	ps.up = false
	n.res.Fault("peer_down")
	if n.connected2(ps) {
		n.dtlsrPeerDown(ps)
	}
	// the adapter notices the loss (like a failing keep-alive) and reports it
	var insts []*simPeer
	for _, in := range ps.insts {
		if in.isStarted() {
			insts = append(insts, in)
		}
	}
	for _, inst := range insts {
		in := inst
		n.inject("peer_down:p"+strconv.Itoa(p), func() {
			in.mu.Lock()
			started, closed := in.started, in.closed
			in.mu.Unlock()
			if !started {
				return
			}
			select {
			case in.ch <- cla.NewConvergencePeerDisappeared(in, in.ps.eid):
			case <-closed:
			}
		})
	}
}

func (n *nodeSim) opRestart(down time.Duration) {
	if n.core == nil {
		return
	}
	n.res.Fault("restart")
	if n.raceBurst {
		n.finishing = true
		n.settle()
		n.finishing = false
	}
	for _, tr := range n.tracks {
		if n.isRetained(tr) {
			n.res.Probe("restart_with_retained_bundle")
			break
		}
	}
	upBefore := []int{}
	for _, ps := range n.peers[1:] {
		if ps.up {
			upBefore = append(upBefore, ps.idx)
		}
		ps.up = false
	}
	n.stopCore()
	if down < time.Millisecond {
		down = time.Millisecond // a restart takes time: never two incarnations in one millisecond
	}
	time.Sleep(down)
	if err := n.startCore(); err != nil {
		n.res.HarnessErr = "restart NewCore: " + err.Error()
		n.aborted = true
		return
	}
	n.onRestart()
	n.prophetOnRestart()
	n.dst = nil
	for _, tr := range n.tracks {
		// spray budgets live in memory only; the statement does not quantify over restarts
		n.sprayOf(tr).unknown = true
	}
	_ = upBefore
}

// advance moves the fake clock by d in steps that end just after each cron tick, settling after
// each step, so that no task stays parked across ticks unless the script wants it to.
func (n *nodeSim) advance(d time.Duration) {
	target := time.Now().Add(d)
	const delta = 370 * time.Microsecond
	for !n.aborted {
		now := time.Now()
		if !now.Before(target) {
			return
		}
		since := now.Sub(n.coreStart)
		k := since/time.Second + 1
		next := n.coreStart.Add(k*time.Second + delta)
		if !next.After(now) {
			next = next.Add(time.Second)
		}
		if next.After(target) {
			next = target
		}
		n.sched.SetCause(n.rootLabel("tick"))
		time.Sleep(next.Sub(now))
		n.settle()
		n.onTick()
	}
}

// ---- store observation (driver side, quiescent points only)

func (n *nodeSim) storeItem(id bpv7.BundleID) (storage.BundleItem, bool) {
	if n.core == nil {
		return storage.BundleItem{}, false
	}
	bi, err := n.core.store.QueryId(id)
	return bi, err == nil
}

func (n *nodeSim) isRetained(tr *btrack) bool {
	_, ok := n.storeItem(tr.id)
	return ok
}

func simWorkerHarnesses() []*simk.Harness {
	return []*simk.Harness{{Name: "node", Gen: genNodeCase, Run: runNodeCase}, {Name: "store", Gen: genStoreCase, Run: runStoreCase},
		{Name: "local", Gen: genLocalCase, Run: runLocalCase}, {Name: "idburst", Gen: genIDBurstCase, Run: runIDBurstCase}}
}

func TestSimWorker(t *testing.T) {
	if os.Getenv("VERIF_HARNESS") == "" {
		t.Skip("simulation worker: set VERIF_HARNESS")
	}
	simT = t
	os.Exit(simk.WorkerMain(simWorkerHarnesses()))
}

// connected2: some adapter instance of the peer is started (regardless of ps.up)
func (n *nodeSim) connected2(ps *peerState) bool {
	for _, in := range ps.insts {
		if in.isStarted() && !in.dead {
			return true
		}
	}
	return false
}
