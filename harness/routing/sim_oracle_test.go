package routing

// Oracles of the node-level harness. Written from the property statements (DESIGN.md §4, App. A);
// they observe Send invocations on scripted peers, the store through its query API at quiescent
// points, and what mock agents received.

import (
	"bytes"
	"fmt"
	"strings"
	"time"

	"github.com/dtn7/dtn7-go/pkg/bpv7"
	"github.com/dtn7/dtn7-go/pkg/storage"
)

const blockFlagDeleteBundle = 0x04
const blockFlagRemoveBlock = 0x10
const blockFlagReport = 0x02

func (n *nodeSim) replicating() bool {
	switch n.algo {
	case "epidemic", "prophet", "spray", "binary_spray", "sensor-mule":
		return true
	}
	return false
}

func (n *nodeSim) storeKeepsMemory() bool {
	switch n.algo {
	case "epidemic", "prophet", "dtlsr", "sensor-mule":
		return true
	}
	return false
}

func (tr *btrack) dstPeer(n *nodeSim) int {
	for _, ps := range n.peers[1:] {
		if ps.eid.SameNode(tr.bundle.PrimaryBlock.Destination) {
			return ps.idx
		}
	}
	return 0
}

func (tr *btrack) successTo(p int) *sendRec {
	for _, s := range tr.sends {
		if s.peer == p && s.outcome == "ok" {
			return s
		}
	}
	return nil
}

func (tr *btrack) anySuccess() bool {
	for _, s := range tr.sends {
		if s.outcome == "ok" {
			return true
		}
	}
	return false
}

// onAccept decides whether the node is entitled to refuse the bundle for a stated cause.
func (n *nodeSim) onAccept(tr *btrack) {
	sp := tr.spec
	if sp.HopLimit >= 0 && sp.HopCount+1 > sp.HopLimit {
		tr.refused = "hop-limit"
	}
	if tr.via == "deliver" {
		for _, u := range sp.Unknown {
			if u.Flags&blockFlagDeleteBundle != 0 {
				tr.refused = "unknown-block-delete"
			}
		}
	}
	if !tr.expiry.After(time.Now().Add(2 * time.Millisecond)) {
		tr.refused = "expired-on-arrival"
	}
	if tr.bundle.PrimaryBlock.CreationTimestamp.IsZeroTime() {
		n.res.Probe("clockless_bundle")
	}
	for _, o := range n.tracks {
		if o != tr && o.via != "deliver" && tr.via != "deliver" && o.tAccept.Equal(tr.tAccept) && o.bundle.PrimaryBlock.SourceNode == tr.bundle.PrimaryBlock.SourceNode {
			n.res.Probe("same_ms_submission")
		}
	}
	n.lg.Add("accept %s via=%s from=p%d refused=%q local=%v", sp.Tag, tr.via, tr.fromPeer, tr.refused, tr.localDst)
}

func (n *nodeSim) connected(p int) bool {
	ps := n.peers[p]
	if !ps.up {
		return false
	}
	for _, in := range ps.insts {
		if in.isStarted() && !in.dead {
			return true
		}
	}
	return false
}

func (n *nodeSim) onPeerUp(ps *peerState) {
	// a bundle whose destination is connected goes to the destination only; peers that appear
	// meanwhile are served on a later retry (checked in the finale), not "as soon as" they appear
	for _, tr := range n.tracks {
		if dp := tr.dstPeer(n); dp != 0 && dp != ps.idx && n.connected(dp) {
			if tr.noSpread == nil {
				tr.noSpread = map[int]bool{}
			}
			tr.noSpread[ps.idx] = true
		}
	}
}
func (n *nodeSim) onRestart()             {}
func (n *nodeSim) onTick()                {}

func (n *nodeSim) expired(tr *btrack, slack time.Duration) bool {
	return time.Now().After(tr.expiry.Add(slack))
}

func (n *nodeSim) live(tr *btrack) bool {
	return time.Now().Before(tr.expiry.Add(-time.Millisecond))
}

// onSendInvoked: oracles on the choice of a peer (C13) and on the copy handed over (C06 in sim_oracle_c06).
func (n *nodeSim) onSendInvoked(rec *sendRec) {
	if rec.parseErr != nil {
		n.res.Violate("C06", "wire-valid", "unparsable-bundle-handed-to-cla", "Send(p%d) got a bundle that does not parse: %v", rec.peer, rec.parseErr)
		return
	}
	if rec.kind != "data" {
		n.checkNodeGenerated(rec)
		return
	}
	tr := n.byTag[rec.tag]
	if tr == nil {
		return
	}
	dp := tr.dstPeer(n)
	// lifetime: never transmitted after the end of its lifetime (C06, App. A.9)
	if n.expired(tr, time.Millisecond) {
		sig := "sent-after-lifetime-end"
		if tr.via == "deliver" && tr.bundle.PrimaryBlock.CreationTimestamp.IsZeroTime() && !n.sentInEpoch(tr, tr.epochAcc) && (n.algo == "epidemic" || n.algo == "sensor-mule") {
			// consequence of the recorded finding: the waiting time before the first forward is not
			// counted, so a clock-less bundle does not age while it waits
			sig = "bundle-age-misses-waiting-time-before-first-forward/" + n.algo
		}
		n.res.Violate("C06", "no-send-after-expiry", sig, "%s handed to p%d %v after its lifetime ended", rec.tag, rec.peer, time.Since(tr.expiry))
	}
	if tr.refused == "hop-limit" {
		n.res.Violate("C06", "hop-limit", "sent-although-hop-limit-exceeded", "%s (count %d, limit %d) handed to p%d", rec.tag, tr.spec.HopCount, tr.spec.HopLimit, rec.peer)
	}
	if tr.refused == "unknown-block-delete" {
		n.res.Violate("C05", "refusal", "sent-although-deletion-demanded", "%s carries an unsupported block demanding deletion but was handed to p%d", rec.tag, rec.peer)
	}
	if tr.localDst {
		n.res.Violate("C07", "local-not-forwarded", "local-bundle-sent-to-peer", "%s is addressed to this node but was handed to p%d", rec.tag, rec.peer)
	}
	n.checkCopy(tr, rec)
	if rec.peer == dp {
		return // direct delivery bypasses the algorithm
	}
	algoChoice := n.replicating() || (n.algo == "dtlsr" && strings.Contains(tr.bundle.PrimaryBlock.Destination.String(), "routing"))
	if !algoChoice {
		return
	}
	if tr.via == "deliver" && tr.spec.Prev == rec.peer {
		n.res.Violate("C13", "not-back", "sent-back-to-previous-node/"+n.algo, "%s arrived with previous node p%d and was offered to p%d", rec.tag, tr.spec.Prev, rec.peer)
	}
	for _, s := range tr.sends {
		if s == rec || s.peer != rec.peer || s.outcome != "ok" {
			continue
		}
		if s.doneEpoch < rec.rootEpoch && !tr.absentSince(s.doneEpoch) {
			if s.incarn != rec.incarn && !n.storeKeepsMemory() {
				continue
			}
			sig := "resent-after-success/" + n.algo
			if s.incarn != rec.incarn {
				sig = "resent-after-success-across-restart/" + n.algo
			}
			n.res.Violate("C13", "not-twice", sig, "%s was transmitted successfully to p%d (epoch %d) and offered to it again by a dispatch triggered later (epoch %d)", rec.tag, rec.peer, s.doneEpoch, rec.rootEpoch)
		}
	}
	n.checkSprayChoice(tr, rec)
	if n.algo == "prophet" {
		n.prophetChoice(tr, rec)
	}
}

func (tr *btrack) absentSince(epoch int) bool { return tr.absentEpoch > epoch }

func (n *nodeSim) onSendDone(rec *sendRec) {
	if rec.outcome == "ok" {
		n.res.Probe("send_ok")
	}
	if rec.kind == "data" {
		if tr := n.byTag[rec.tag]; tr != nil {
			n.spraySendDone(tr, rec)
		}
	}
}

// pendingByTag loads every pending store item and maps payload tags to items.
func (n *nodeSim) pendingByTag() (map[string]storage.BundleItem, map[string]bpv7.Bundle, error) {
	items := map[string]storage.BundleItem{}
	bundles := map[string]bpv7.Bundle{}
	if n.core == nil {
		return items, bundles, nil
	}
	bis, err := n.core.store.QueryPending()
	if err != nil {
		return nil, nil, err
	}
	for _, bi := range bis {
		if len(bi.Parts) == 0 {
			continue
		}
		b, err := bi.Parts[0].Load()
		if err != nil {
			continue
		}
		pb, err := b.PayloadBlock()
		if err != nil {
			continue
		}
		data := pb.Value.(*bpv7.PayloadBlock).Data()
		if i := bytes.IndexByte(data, '|'); i > 0 && i < 12 {
			tag := string(data[:i])
			items[tag] = bi
			bundles[tag] = b
		}
	}
	return items, bundles, nil
}

func payloadOf(b *bpv7.Bundle) []byte {
	pb, err := b.PayloadBlock()
	if err != nil {
		return nil
	}
	return pb.Value.(*bpv7.PayloadBlock).Data()
}

// checkSettled runs at quiescent points with nothing parked (every bundle is settled, App. A.1).
func (n *nodeSim) checkSettled(where string) {
	if n.core == nil || n.aborted {
		return
	}
	items, loaded, err := n.pendingByTag()
	if err != nil {
		n.res.HarnessErr = "QueryPending: " + err.Error()
		return
	}
	for i := 0; i < len(n.ex.Bundles); i++ {
		tr := n.tracks[i]
		if tr == nil {
			continue
		}
		// bookkeeping: is the bundle (by its ID as injected) in the store?
		_, inStore := n.storeItem(tr.id)
		if _, pend := items[tr.spec.Tag]; pend {
			inStore = true
		}
		if !inStore {
			tr.absentEpoch = n.epoch
		}
		if bi, pend := items[tr.spec.Tag]; pend && tr.via != "deliver" {
			tr.assignedID = bi.BId.String()
		}
		if tr.localDst || tr.refused != "" || tr.dupOf != 0 {
			if tr.refused == "unknown-block-delete" && tr.dupOf == 0 {
				// C06: a refused bundle is dropped from the store
				if _, ok := items[tr.spec.Tag]; ok {
					n.res.Violate("C06", "refused-dropped", "refused-bundle-kept-pending/"+tr.refused, "%s was refused (%s) but is still pending in the store", tr.spec.Tag, tr.refused)
				}
			}
			continue
		}
		if !n.live(tr) {
			if n.expired(tr, time.Millisecond) {
				n.res.Probe("bundle_expired_in_run")
			}
			continue
		}
		if !tr.anySuccess() {
			// I1 retention
			n.res.Probe("retention_checked")
			bi, ok := items[tr.spec.Tag]
			if _, there := n.storeItem(tr.id); !ok && there && tr.via == "deliver" {
				sig := "retained-but-not-marked-for-retry"
				if tr.reinjected > 0 {
					sig += "/after-duplicate-reception"
				}
				n.res.Violate("C05", "I1-retention", sig+"/"+n.algo, "%s (%s, accepted %v ago, no successful transmission) is in the store but not flagged pending at %s (received %d times)",
					tr.spec.Tag, tr.via, time.Since(tr.tAccept), where, tr.reinjected+1)
				tr.lostPending = true
				continue
			}
			if !ok {
				sig := "accepted-bundle-not-retained"
				switch {
				case tr.bundle.PrimaryBlock.CreationTimestamp.IsZeroTime():
					sig += "/clockless"
				case tr.via != "deliver" && n.sameMsSibling(tr):
					sig += "/same-ms-submission"
				}
				if tr.incarnAcc != n.incarn {
					sig += "/after-restart"
				}
				if n.idReusedAfterRestart(tr) {
					sig = "accepted-bundle-not-retained/clockless-id-reused-after-restart"
				}
				n.res.Violate("C05", "I1-retention", sig, "%s (%s, accepted %v ago, lifetime ends in %v, no successful transmission) is not pending in the store at %s",
					tr.spec.Tag, tr.via, time.Since(tr.tAccept), time.Until(tr.expiry), where)
				continue
			}
			_ = bi
			lb := loaded[tr.spec.Tag]
			if !bytes.Equal(payloadOf(&lb), payloadOf(&tr.bundle)) {
				n.res.Violate("C05", "I1-retention", "retained-payload-differs", "%s: stored payload differs from the accepted one", tr.spec.Tag)
			}
		}
		if n.idReusedAfterRestart(tr) || tr.lostPending {
			continue // reported once under I1
		}
		if n.algo == "dtlsr" && tr.via == "deliver" && !tr.dtlsrJudged && tr.reinjected == 0 {
			tr.dtlsrJudged = true
			n.dtlsrJudgeUnicast(tr)
		}
		// I2 direct delivery
		if dp := tr.dstPeer(n); dp != 0 && n.connected(dp) && tr.successTo(dp) == nil {
			since := n.peers[dp].upEpoch
			if tr.epochAcc > since {
				since = tr.epochAcc
			}
			if !n.invokedSince(tr, dp, since) {
				sig := "not-offered-to-connected-destination/" + n.algo
				if n.peers[dp].appearedUnlisted >= n.peers[dp].upEpoch {
					sig = "not-offered-to-connected-destination/peer-appeared-before-registration"
				}
				n.res.Violate("C05", "I2-direct", sig, "%s: destination p%d is connected (since epoch %d, bundle accepted epoch %d) but no Send was invoked since (%s)",
					tr.spec.Tag, dp, n.peers[dp].upEpoch, tr.epochAcc, where)
			}
		}
		// I3 epidemic spread
		if n.algo == "epidemic" || n.algo == "sensor-mule" {
			if _, pend := items[tr.spec.Tag]; pend {
				for _, ps := range n.peers[1:] {
					if !n.connected(ps.idx) || ps.sensor || tr.spec.Prev == ps.idx || tr.successTo(ps.idx) != nil {
						continue
					}
					if (tr.dstPeer(n) != 0 && n.connected(tr.dstPeer(n))) || tr.noSpread[ps.idx] {
						continue // direct delivery takes precedence over spreading
					}
					if ps.upEpoch <= tr.epochAcc {
						continue // "newly connected" peers only; older ones are covered by the retry oracle
					}
					since := ps.upEpoch
					if !n.invokedSince(tr, ps.idx, since) {
						sig := "not-offered-to-new-peer/" + n.algo
						if ps.appearedUnlisted >= ps.upEpoch {
							sig = "not-offered-to-new-peer/peer-appeared-before-registration"
						} else if tr.overlapRMW {
							sig += "/overlapping-failure-reports"
						}
						n.res.Violate("C05", "I3-epidemic", sig, "%s is retained, p%d connected at epoch %d and does not have it, but no Send was invoked since (%s)",
							tr.spec.Tag, ps.idx, ps.upEpoch, where)
					}
				}
			}
		}
	}
	n.checkIDs(items)
	n.checkLocalReports()
}

// reportWithoutFlag: a bundle of this node whose payload is a well-formed status report but which does not
// carry the administrative-record flag (C15: "the report is an administrative record").
func (n *nodeSim) reportWithoutFlag(b *bpv7.Bundle, where string) {
	if b.IsAdministrativeRecord() || !b.PrimaryBlock.SourceNode.SameNode(bpv7.MustNewEndpointID(simNodeEID)) {
		return
	}
	pb, err := b.PayloadBlock()
	if err != nil {
		return
	}
	data := pb.Value.(*bpv7.PayloadBlock).Data()
	if i := bytes.IndexByte(data, '|'); i > 0 && i < 12 && n.byTag[string(data[:i])] != nil {
		return // workload
	}
	if ar, err := bpv7.NewAdministrativeRecordFromCbor(data); err == nil {
		if sr, ok := ar.(*bpv7.StatusReport); ok {
			n.res.Violate("C15", "well-formed", "status-report-without-administrative-record-flag", "bundle %s (%s) carries a status report about %s but not the administrative-record flag (flags %x)", b.ID(), where, sr.RefBundle, uint64(b.PrimaryBlock.BundleControlFlags))
		}
	}
}

// checkLocalReports: administrative records generated by the node that ended up with a local
// agent or pending in the store are judged like those seen on the wire (C15).
func (n *nodeSim) checkLocalReports() {
	for _, ag := range n.allAgents {
		for _, b := range ag.received() {
			if b.IsAdministrativeRecord() {
				bb := b
				n.judgeReport(&bb, "delivered to local agent "+ag.name)
			} else {
				bb := b
				n.reportWithoutFlag(&bb, "delivered to local agent "+ag.name)
			}
		}
	}
	if n.core == nil {
		return
	}
	bis, err := n.core.store.QueryPending()
	if err != nil {
		return
	}
	for _, bi := range bis {
		if len(bi.Parts) == 0 {
			continue
		}
		if b, err := bi.Parts[0].Load(); err == nil && b.IsAdministrativeRecord() {
			n.judgeReport(&b, "pending in the store")
		} else if err == nil {
			n.reportWithoutFlag(&b, "pending in the store")
		}
	}
}

func (n *nodeSim) sameMsSibling(tr *btrack) bool {
	for _, o := range n.tracks {
		if o != tr && o.via != "deliver" && o.tAccept.Equal(tr.tAccept) && o.bundle.PrimaryBlock.SourceNode == tr.bundle.PrimaryBlock.SourceNode {
			return true
		}
	}
	return false
}

func (n *nodeSim) invokedSince(tr *btrack, p, epoch int) bool {
	for _, s := range tr.sends {
		if s.peer == p && s.rootEpoch >= epoch {
			return true
		}
	}
	return false
}

// finale: faults stop, one retry interval plus two ticks pass, then bounded liveness (I4/I6).
func (n *nodeSim) finale() {
	if n.core == nil {
		return
	}
	n.lg.Add("finale: faults off")
	n.faultsOff = true
	n.faultsOffEpoch = n.epoch
	n.advance(n.retryEvery + 2*time.Second)
	n.checkSettled("finale")
	if n.aborted {
		return
	}
	items, _, err := n.pendingByTag()
	if err != nil {
		return
	}
	for i := 0; i < len(n.ex.Bundles); i++ {
		tr := n.tracks[i]
		if tr == nil || tr.localDst || tr.refused != "" || tr.dupOf != 0 || !n.live(tr) || n.idReusedAfterRestart(tr) || tr.lostPending {
			continue
		}
		if dp := tr.dstPeer(n); dp != 0 && n.connected(dp) {
			if tr.successTo(dp) == nil {
				n.res.Violate("C05", "I4-retry", "no-retry-to-connected-destination/"+n.algo, "%s: destination p%d stayed connected for a full retry interval without faults, yet no successful transmission", tr.spec.Tag, dp)
			}
			continue
		}
		if n.algo == "epidemic" || n.algo == "sensor-mule" {
			if _, pend := items[tr.spec.Tag]; !pend {
				continue
			}
			for _, ps := range n.peers[1:] {
				if !n.connected(ps.idx) || ps.sensor || tr.spec.Prev == ps.idx {
					continue
				}
				if tr.successTo(ps.idx) == nil {
					sig := "peer-never-served-after-faults-stopped/" + n.algo
					failed := 0
					for _, s := range tr.sends {
						if s.outcome == "fail" {
							failed++
						}
					}
					if failed > 0 {
						sig = "failed-peer-not-retried/" + n.algo
						if tr.overlapRMW {
							sig += "/overlapping-failure-reports"
						}
					}
					n.res.Violate("C05", "I6-failure-bookkeeping", sig, "%s is retained, p%d is connected and never got it, a fault-free retry interval passed, still no transmission (failed sends so far: %d)", tr.spec.Tag, ps.idx, failed)
				}
			}
		}
	}
	// C06: refused bundles are dropped once a dispatch had the chance to notice; C15: a bundle
	// reported as deleted is gone

	for i := 0; i < len(n.ex.Bundles); i++ {
		tr := n.tracks[i]
		if tr == nil || tr.dupOf != 0 || tr.lostPending || n.idReusedAfterRestart(tr) {
			continue
		}
		_, pend := items[tr.spec.Tag]
		_, byID := n.storeItem(tr.id)
		// a dispatch notices the exceeded hop limit only if it gets as far as forwarding: some
		// connected peer other than the previous node (and no sensor) must have been available
		eligible := false
		for _, ps := range n.peers[1:] {
			if n.connected(ps.idx) && !ps.sensor && ps.idx != tr.spec.Prev {
				eligible = true
			}
		}
		// in the store but no longer flagged pending after a duplicate reception is the recorded C05
		// finding (retained-but-not-marked-for-retry/after-duplicate-reception): such a bundle is never
		// dispatched again, so nothing can notice its hop count; not judged a second time here
		knownLost := !pend && tr.reinjected > 0 && (n.algo == "epidemic" || n.algo == "sensor-mule" || n.algo == "prophet")
		if tr.refused == "hop-limit" && eligible && n.live(tr) && !tr.localDst && !knownLost && (pend || (byID && tr.via == "deliver")) {
			n.res.Violate("C06", "refused-dropped", "hop-limit-exceeded-bundle-kept", "%s (count %d, limit %d) is still in the store after a fault-free retry interval with a connected peer", tr.spec.Tag, tr.spec.HopCount, tr.spec.HopLimit)
		}
		// the cleaning job runs 10 minutes after the (re)start of the node and every 10 minutes from then on
		if n.expired(tr, 11*time.Minute) && time.Since(n.coreStart) > 10*time.Minute+30*time.Second && (pend || (byID && tr.via == "deliver")) {
			n.res.Violate("C06", "expired-dropped", "expired-bundle-kept-past-cleaning", "%s expired %v ago and is still in the store", tr.spec.Tag, time.Since(tr.expiry))
		}
		if tr.reportedDeleted && (pend || (byID && tr.via == "deliver")) && tr.reinjected == 0 {
			n.res.Violate("C15", "truthful", "untrue-report/deleted", "%s was reported deleted but is still in the store", tr.spec.Tag)
		}
	}
	n.sprayFinale()
	n.res.Nontrivial = len(n.sends) > 0 && (len(n.res.Faults) > 0 || n.res.Probes["sched_choice_among_many"] > 0)
}

// checkIDs: C14 — distinct IDs on the wire and in the store for locally originated bundles
// (within one incarnation of the node: the statement does not quantify over restarts; the reuse of
// clock-less IDs after a restart is recorded under C05).
func (n *nodeSim) checkIDs(items map[string]storage.BundleItem) {
	seen := map[string]string{}
	for i := 0; i < len(n.ex.Bundles); i++ {
		tr := n.tracks[i]
		if tr == nil || tr.via == "deliver" {
			continue
		}
		wireID := ""
		for _, s := range tr.sends {
			if wireID == "" {
				wireID = s.idStr
			} else if wireID != s.idStr {
				n.res.Violate("C14", "stable-id", "bundle-id-changed-between-transmissions", "%s left the node as %s and as %s", tr.spec.Tag, wireID, s.idStr)
			}
		}
		if wireID != "" {
			if other, dup := seen[wireID]; dup && other != tr.spec.Tag && n.byTag[other] != nil && n.byTag[other].incarnAcc == tr.incarnAcc {
				n.res.Violate("C14", "distinct-wire-id", "two-bundles-same-wire-id", "%s and %s both left the node as %s", other, tr.spec.Tag, wireID)
			}
			seen[wireID] = tr.spec.Tag
		}
		if bi, ok := items[tr.spec.Tag]; ok && wireID != "" {
			if bi.BId.String() != mustScrub(wireID, tr, n) {
				n.res.Violate("C14", "store-key-is-wire-id", "store-key-differs-from-wire-id", "%s is stored as %s but transmitted as %s", tr.spec.Tag, bi.BId.String(), wireID)
			}
		}
	}
	// bundles the node originates itself (routing metadata, status reports, pongs): two different ones never
	// leave the node under one ID (the same one may of course go to several peers)
	type gen struct {
		fp   string
		kind string
	}
	first := map[string]gen{}
	for _, s := range n.sends {
		if s.parseErr != nil || s.kind == "data" || !s.bundle.PrimaryBlock.SourceNode.SameNode(bpv7.MustNewEndpointID(simNodeEID)) {
			continue
		}
		fp := s.bundle.PrimaryBlock.Destination.String() + "|" + string(payloadOf(&s.bundle))
		for _, t := range []uint64{bpv7.ExtBlockTypeProphetBlock, bpv7.ExtBlockTypeDTLSRBlock} {
			if cb, err := s.bundle.ExtensionBlock(t); err == nil {
				var buf bytes.Buffer
				_ = bpv7.GetExtensionBlockManager().WriteBlock(cb.Value, &buf)
				if t == bpv7.ExtBlockTypeProphetBlock || t == bpv7.ExtBlockTypeDTLSRBlock {
					// maps are serialised in Go's map order: compare the decoded content instead
					fp += fmt.Sprintf("|%d:%v", t, cb.Value)
				} else {
					fp += fmt.Sprintf("|%d:%x", t, buf.Bytes())
				}
			}
		}
		key := fmt.Sprintf("%d/%s", s.incarn, s.idStr)
		if g, ok := first[key]; ok && g.fp != fp {
			n.res.Violate("C14", "distinct-wire-id", "two-node-generated-bundles-same-wire-id/"+s.kind, "two different %s bundles of this node left it as %s (destinations / contents differ)", s.kind, s.idStr)
		} else if !ok {
			first[key] = gen{fp, s.kind}
		}
	}
	// every pending store record holds the payload of exactly one submission: two submissions
	// never share a record (the second would be lost)
	owners := map[string]string{}
	for tag, bi := range items {
		if o, ok := owners[bi.Id]; ok {
			n.res.Violate("C14", "distinct-store-key", "two-bundles-one-store-record", "%s and %s share store record %s", o, tag, bi.Id)
		}
		owners[bi.Id] = tag
	}
}

func mustScrub(wireID string, tr *btrack, n *nodeSim) string {
	for _, s := range tr.sends {
		if s.idStr == wireID {
			return s.bundle.ID().Scrub().String()
		}
	}
	return wireID
}

func (n *nodeSim) checkNodeGenerated(rec *sendRec) {
	// every bundle the node generates itself must be valid (C02's system-level clause, reported under C06)
	if err := rec.bundle.CheckValid(); err != nil {
		n.res.Violate("C06", "wire-valid", "invalid-node-generated-bundle/"+rec.kind, "p%d was handed an invalid %s bundle: %v", rec.peer, rec.kind, err)
	}
	if rec.kind == "admin" {
		n.checkStatusReport(rec)
	}
}

var _ = fmt.Sprintf

// idReusedAfterRestart: tr is a clock-less local submission, and another incarnation of the node
// filed another clock-less submission of the same source: the sequence counter restarts at zero
// with the process, so both get the same bundle ID and share (and delete) one store record.
func (n *nodeSim) idReusedAfterRestart(tr *btrack) bool {
	if tr.via == "deliver" || !tr.bundle.PrimaryBlock.CreationTimestamp.IsZeroTime() {
		return false
	}
	for _, o := range n.tracks {
		if o != tr && o.via != "deliver" && o.incarnAcc != tr.incarnAcc && o.bundle.PrimaryBlock.CreationTimestamp.IsZeroTime() &&
			o.bundle.PrimaryBlock.SourceNode == tr.bundle.PrimaryBlock.SourceNode {
			return true
		}
	}
	return false
}
