package routing

// C06 (faithful copies) and C15 (status reports): oracles over the bytes handed to scripted peers.
// The bundle encoding is delimited by an independent, minimal CBOR item scanner, not by the codec
// under test.

import (
	"bytes"
	"encoding/binary"
	"fmt"
	"time"

	"github.com/dtn7/dtn7-go/pkg/bpv7"
)

// cborItemLen returns the length of the CBOR data item at the start of d, or -1.
func cborItemLen(d []byte) int {
	if len(d) == 0 {
		return -1
	}
	mt := d[0] >> 5
	ai := d[0] & 0x1f
	hdr := 1
	var val uint64
	switch {
	case ai < 24:
		val = uint64(ai)
	case ai == 24:
		if len(d) < 2 {
			return -1
		}
		val, hdr = uint64(d[1]), 2
	case ai == 25:
		if len(d) < 3 {
			return -1
		}
		val, hdr = uint64(binary.BigEndian.Uint16(d[1:])), 3
	case ai == 26:
		if len(d) < 5 {
			return -1
		}
		val, hdr = uint64(binary.BigEndian.Uint32(d[1:])), 5
	case ai == 27:
		if len(d) < 9 {
			return -1
		}
		val, hdr = binary.BigEndian.Uint64(d[1:]), 9
	case ai == 31:
		if mt == 7 {
			return 1 // break
		}
		// indefinite length: items until break
		n := 1
		for {
			if n >= len(d) {
				return -1
			}
			if d[n] == 0xff {
				return n + 1
			}
			l := cborItemLen(d[n:])
			if l < 0 {
				return -1
			}
			n += l
			if mt == 5 {
				l = cborItemLen(d[n:])
				if l < 0 {
					return -1
				}
				n += l
			}
		}
	default:
		return -1
	}
	switch mt {
	case 0, 1, 7:
		return hdr
	case 2, 3:
		if uint64(len(d)-hdr) < val {
			return -1
		}
		return hdr + int(val)
	case 4, 5:
		n := hdr
		cnt := val
		if mt == 5 {
			cnt *= 2
		}
		for i := uint64(0); i < cnt; i++ {
			l := cborItemLen(d[n:])
			if l < 0 {
				return -1
			}
			n += l
		}
		return n
	case 6:
		l := cborItemLen(d[hdr:])
		if l < 0 {
			return -1
		}
		return hdr + l
	}
	return -1
}

// cborUint decodes an unsigned integer item; ok=false otherwise.
func cborUint(d []byte) (v uint64, n int, ok bool) {
	if len(d) == 0 || d[0]>>5 != 0 {
		return 0, 0, false
	}
	ai := d[0] & 0x1f
	switch {
	case ai < 24:
		return uint64(ai), 1, true
	case ai == 24 && len(d) >= 2:
		return uint64(d[1]), 2, true
	case ai == 25 && len(d) >= 3:
		return uint64(binary.BigEndian.Uint16(d[1:])), 3, true
	case ai == 26 && len(d) >= 5:
		return uint64(binary.BigEndian.Uint32(d[1:])), 5, true
	case ai == 27 && len(d) >= 9:
		return binary.BigEndian.Uint64(d[1:]), 9, true
	}
	return 0, 0, false
}

// rawBlock is one block of an encoded bundle as delimited by the scanner.
type rawBlock struct {
	raw     []byte
	typ     uint64 // canonical blocks only
	num     uint64
	flags   uint64
	crcType uint64
	data    []byte // content of the block-type-specific byte string
}

// splitBundle delimits an encoded bundle into its primary block and canonical blocks.
func splitBundle(wire []byte) (primary []byte, blocks []rawBlock, err error) {
	if len(wire) < 2 || wire[0] != 0x9f {
		return nil, nil, fmt.Errorf("no indefinite array")
	}
	n := 1
	l := cborItemLen(wire[n:])
	if l < 0 {
		return nil, nil, fmt.Errorf("primary block not delimitable")
	}
	primary = wire[n : n+l]
	n += l
	for {
		if n >= len(wire) {
			return nil, nil, fmt.Errorf("missing break")
		}
		if wire[n] == 0xff {
			break
		}
		l := cborItemLen(wire[n:])
		if l < 0 {
			return nil, nil, fmt.Errorf("canonical block not delimitable")
		}
		rb := rawBlock{raw: wire[n : n+l]}
		d := rb.raw
		if d[0]>>5 != 4 {
			return nil, nil, fmt.Errorf("canonical block is not an array")
		}
		p := 1
		var ok bool
		var k int
		if rb.typ, k, ok = cborUint(d[p:]); !ok {
			return nil, nil, fmt.Errorf("block type")
		}
		p += k
		if rb.num, k, ok = cborUint(d[p:]); !ok {
			return nil, nil, fmt.Errorf("block number")
		}
		p += k
		if rb.flags, k, ok = cborUint(d[p:]); !ok {
			return nil, nil, fmt.Errorf("block flags")
		}
		p += k
		if rb.crcType, k, ok = cborUint(d[p:]); !ok {
			return nil, nil, fmt.Errorf("crc type")
		}
		p += k
		if p >= len(d) || d[p]>>5 != 2 {
			return nil, nil, fmt.Errorf("block data is not a byte string")
		}
		dl := cborItemLen(d[p:])
		hl := 1
		switch d[p] & 0x1f {
		case 24:
			hl = 2
		case 25:
			hl = 3
		case 26:
			hl = 5
		case 27:
			hl = 9
		}
		rb.data = d[p+hl : p+dl]
		blocks = append(blocks, rb)
		n += l
	}
	return
}

func findBlock(bs []rawBlock, typ uint64) *rawBlock {
	for i := range bs {
		if bs[i].typ == typ {
			return &bs[i]
		}
	}
	return nil
}

func (n *nodeSim) algoOwnsBlock(typ uint64) bool {
	switch typ {
	case 192:
		return n.algo == "binary_spray"
	case 193:
		return n.algo == "dtlsr"
	case 194:
		return n.algo == "prophet"
	}
	return false
}

// checkCopy: the bytes handed to a convergence layer against the bundle the node accepted (C06).
func (n *nodeSim) checkCopy(tr *btrack, rec *sendRec) {
	if n.idReusedAfterRestart(tr) {
		return // two bundles share one store record (recorded finding under C05): their copies are not judged
	}
	n.res.Probe("copy_checked")
	wp, wbs, err := splitBundle(rec.wire)
	if err != nil {
		n.res.Violate("C06", "wire-valid", "wire-bytes-not-delimitable", "%s to p%d: %v", rec.tag, rec.peer, err)
		return
	}
	ap, abs, err := splitBundle(tr.wire)
	if err != nil {
		n.res.HarnessErr = "accepted encoding not delimitable: " + err.Error()
		return
	}
	vs := "/" + tr.via
	if tr.via != "deliver" {
		vs = "/submitted"
	}
	// primary block
	if tr.via == "deliver" {
		if !bytes.Equal(wp, ap) {
			n.res.Violate("C06", "primary-identical", "primary-block-changed", "%s to p%d: primary block bytes differ from the accepted ones\n accepted %x\n sent     %x", rec.tag, rec.peer, ap, wp)
		}
	} else {
		a, w := tr.bundle.PrimaryBlock, rec.bundle.PrimaryBlock
		if a.Version != w.Version || a.BundleControlFlags != w.BundleControlFlags || a.CRCType != w.CRCType || a.Destination != w.Destination ||
			a.SourceNode != w.SourceNode || a.ReportTo != w.ReportTo || a.CreationTimestamp[0] != w.CreationTimestamp[0] || a.Lifetime != w.Lifetime ||
			a.FragmentOffset != w.FragmentOffset || a.TotalDataLength != w.TotalDataLength {
			n.res.Violate("C06", "primary-identical", "primary-block-changed/submitted", "%s to p%d: primary block fields (other than the node-assigned sequence number) differ: accepted %v sent %v", rec.tag, rec.peer, a, w)
		}
	}
	// payload
	apay, wpay := findBlock(abs, 1), findBlock(wbs, 1)
	if apay == nil || wpay == nil || !bytes.Equal(apay.raw, wpay.raw) {
		n.res.Violate("C06", "payload-identical", "payload-block-changed", "%s to p%d: payload block bytes differ", rec.tag, rec.peer)
	}
	if len(wbs) == 0 || wbs[len(wbs)-1].typ != 1 {
		n.res.Violate("C06", "wire-valid", "payload-block-not-last", "%s to p%d", rec.tag, rec.peer)
	}
	// blocks of the accepted bundle
	for i := range abs {
		ab := &abs[i]
		wb := findBlock(wbs, ab.typ)
		switch ab.typ {
		case 1:
		case 10: // hop count
			if wb == nil {
				n.res.Violate("C06", "hop-count", "hop-count-block-lost", "%s to p%d", rec.tag, rec.peer)
				continue
			}
			hb, err := rec.bundle.ExtensionBlock(bpv7.ExtBlockTypeHopCountBlock)
			if err != nil {
				continue
			}
			h := hb.Value.(*bpv7.HopCountBlock)
			if int(h.Limit) != tr.spec.HopLimit || int(h.Count) != tr.spec.HopCount+1 {
				sig := "hop-count-not-received-plus-one"
				if n.attempt(tr, rec) > 1 {
					sig += "/on-retry"
				}
				n.res.Violate("C06", "hop-count", sig, "%s to p%d (attempt %d): accepted count %d limit %d, sent count %d limit %d", rec.tag, rec.peer, n.attempt(tr, rec), tr.spec.HopCount, tr.spec.HopLimit, h.Count, h.Limit)
			}
			if wb.flags != ab.flags || wb.crcType != ab.crcType {
				n.res.Violate("C06", "blocks-unchanged", "block-flags-or-crc-type-changed", "%s to p%d: hop count block flags/crc type changed", rec.tag, rec.peer)
			}
		case 7: // bundle age
			if wb == nil {
				n.res.Violate("C06", "bundle-age", "bundle-age-block-lost", "%s to p%d", rec.tag, rec.peer)
				continue
			}
			agb, err := rec.bundle.ExtensionBlock(bpv7.ExtBlockTypeBundleAgeBlock)
			if err != nil {
				continue
			}
			age := int64(agb.Value.(*bpv7.BundleAgeBlock).Age())
			res := int64(rec.tInvoke.Sub(tr.tAccept) / time.Millisecond)
			want := tr.spec.AgeMs + res
			n.res.Probe("age_checked")
			if res >= 1000 {
				n.res.Probe("age_checked_residence_ge_1s")
			}
			if age < want-1 || age > want+1 {
				sig := "bundle-age-not-grown-by-residence"
				if tr.incarnAcc != rec.incarn {
					sig += "/after-restart"
				}
				// class of the recorded finding: the reception-time dispatch did not get as far as
				// forwarding (no Send in the reception epoch), so the reception time was never
				// persisted; the first later dispatch under-counts the waiting time
				if tr.via == "deliver" && !n.sentInEpoch(tr, tr.epochAcc) && age >= tr.spec.AgeMs && age < want &&
					(n.algo == "epidemic" || n.algo == "sensor-mule") {
					sig = "bundle-age-misses-waiting-time-before-first-forward/" + n.algo
				}
				n.res.Violate("C06", "bundle-age", sig, "%s to p%d: accepted age %d ms, residence %d ms, sent age %d ms (expected %d±1)", rec.tag, rec.peer, tr.spec.AgeMs, res, age, want)
			}
		case 6: // previous node: replaced, checked below
		default:
			if n.algoOwnsBlock(ab.typ) {
				continue
			}
			known := bpv7.GetExtensionBlockManager().IsKnown(ab.typ)
			if !known && ab.flags&blockFlagRemoveBlock != 0 && tr.via == "deliver" {
				if wb != nil {
					sig := "unsupported-block-flagged-for-removal-still-sent"
					if rec.rootEpoch > tr.epochAcc {
						sig += "/from-stored-copy" // a dispatch later than the reception: bundle re-loaded from the store
					} else {
						sig += "/in-reception-dispatch"
					}
					n.res.Violate("C06", "remove-flag", sig, "%s to p%d (attempt %d): block type %d has the remove flag but is in the transmitted bundle", rec.tag, rec.peer, n.attempt(tr, rec), ab.typ)
				}
				continue
			}
			if wb == nil {
				n.res.Violate("C06", "blocks-unchanged", "block-lost", "%s to p%d: block type %d is missing in the transmitted bundle", rec.tag, rec.peer, ab.typ)
				continue
			}
			if !bytes.Equal(wb.raw, ab.raw) {
				n.res.Violate("C06", "blocks-unchanged", "block-changed", "%s to p%d: block type %d differs\n accepted %x\n sent     %x", rec.tag, rec.peer, ab.typ, ab.raw, wb.raw)
			}
		}
	}
	// previous node names this node
	if pb, err := rec.bundle.ExtensionBlock(bpv7.ExtBlockTypePreviousNodeBlock); err != nil {
		n.res.Violate("C06", "previous-node", "no-previous-node-block", "%s to p%d: no previous node block in the transmitted bundle", rec.tag, rec.peer)
	} else if e := pb.Value.(*bpv7.PreviousNodeBlock).Endpoint(); e.String() != simNodeEID {
		n.res.Violate("C06", "previous-node", "previous-node-is-not-this-node", "%s to p%d: previous node block names %s", rec.tag, rec.peer, e)
	}
	// nothing else may appear
	for i := range wbs {
		wb := &wbs[i]
		if wb.typ == 1 || wb.typ == 6 || n.algoOwnsBlock(wb.typ) || findBlock(abs, wb.typ) != nil {
			continue
		}
		n.res.Violate("C06", "blocks-unchanged", "block-added", "%s to p%d: block type %d was added by the node", rec.tag, rec.peer, wb.typ)
	}
	_ = vs
}

// attempt numbers the Send invocations of one bundle to one peer.
func (n *nodeSim) attempt(tr *btrack, rec *sendRec) int {
	k := 0
	for _, s := range tr.sends {
		if s.peer == rec.peer {
			k++
		}
		if s == rec {
			break
		}
	}
	return k
}

// ---------------------------------------------------------------- C15

type reportSeen struct {
	id    string
	items []int
}

// checkStatusReport: every administrative record the node emits (seen at a scripted peer).
func (n *nodeSim) checkStatusReport(rec *sendRec) {
	n.judgeReport(&rec.bundle, fmt.Sprintf("sent to p%d", rec.peer))
}

func (n *nodeSim) judgeReport(b *bpv7.Bundle, where string) {
	if n.noReportJudge {
		return
	}
	id := b.ID().String()
	if n.reportsJudged == nil {
		n.reportsJudged = map[string]bool{}
	}
	if n.reportsJudged[id] {
		return
	}
	n.reportsJudged[id] = true
	if !b.PrimaryBlock.SourceNode.SameNode(bpv7.MustNewEndpointID(simNodeEID)) {
		return // not generated by this node (a workload bundle with the administrative flag)
	}
	if pl := payloadOf(b); len(pl) > 3 {
		if i := bytes.IndexByte(pl, '|'); i > 0 && i < 12 && n.byTag[string(pl[:i])] != nil {
			return // a workload bundle of a local application that carries the administrative flag
		}
	}
	n.res.Probe("status_report_judged")
	const reqFlags = fReqReceive | fReqForward | fReqDeliver | fReqDelete
	if uint64(b.PrimaryBlock.BundleControlFlags)&reqFlags != 0 {
		n.res.Violate("C15", "no-cascade", "report-requests-reports", "report %s (%s) carries status-report request flags %x", id, where, uint64(b.PrimaryBlock.BundleControlFlags))
	}
	ar, err := b.AdministrativeRecord()
	if err != nil {
		n.res.Violate("C15", "well-formed", "report-not-decodable", "report %s (%s): %v", id, where, err)
		return
	}
	sr, ok := ar.(*bpv7.StatusReport)
	if !ok {
		return
	}
	var tr *btrack
	ref := sr.RefBundle.String()
	for i := 0; i < len(n.ex.Bundles) && tr == nil; i++ {
		if t := n.tracks[i]; t != nil {
			for _, cand := range n.idsOf(t) {
				if cand == ref {
					tr = t
				}
			}
		}
	}
	if tr == nil {
		// a locally submitted bundle whose node-assigned ID the harness has not seen yet: the k-th
		// submission of one source with one creation time within an incarnation gets sequence k
		for i := 0; i < len(n.ex.Bundles) && tr == nil; i++ {
			if t := n.tracks[i]; t != nil && t.via != "deliver" && len(n.idsOf(t)) == 0 {
				id := t.id
				id.Timestamp[1] = uint64(n.submissionRank(t))
				if id.String() == ref {
					tr = t
				}
			}
		}
	}
	if tr != nil && n.idReusedAfterRestart(tr) {
		return // two bundles share this ID (recorded finding under C05): the report cannot be attributed
	}
	if tr == nil {
		// a report about a node-generated bundle or about nothing we know
		n.res.Violate("C15", "truthful", "report-about-unknown-bundle", "report %s (%s) refers to %s, which is no bundle this node handled", id, where, sr.RefBundle.String())
		return
	}
	tb := &tr.bundle
	if tb.PrimaryBlock.BundleControlFlags.Has(bpv7.AdministrativeRecordPayload) {
		n.res.Violate("C15", "no-cascade", "report-about-administrative-record", "report %s (%s) is about %s, an administrative record", id, where, tr.spec.Tag)
	}
	if tb.PrimaryBlock.ReportTo.SameNode(bpv7.MustNewEndpointID(simNodeEID)) {
		n.res.Violate("C15", "no-cascade", "report-for-own-report-to", "report %s (%s) is about %s whose report-to %s is this node", id, where, tr.spec.Tag, tb.PrimaryBlock.ReportTo)
	}
	if b.PrimaryBlock.Destination != tb.PrimaryBlock.ReportTo {
		n.res.Violate("C15", "addressed", "report-not-addressed-to-report-to", "report %s (%s) about %s goes to %s, report-to is %s", id, where, tr.spec.Tag, b.PrimaryBlock.Destination, tb.PrimaryBlock.ReportTo)
	}
	wantTime := tr.spec.Flags&fStatusTime != 0
	asserted := 0
	for pos, it := range sr.StatusInformation {
		if !it.Asserted {
			continue
		}
		asserted++
		if it.StatusRequested != wantTime {
			n.res.Violate("C15", "time-iff-requested", fmt.Sprintf("report-time-presence-wrong/time-requested=%v", wantTime), "report %s (%s) about %s: status item %d carries time=%v", id, where, tr.spec.Tag, pos, it.StatusRequested)
		}
		var reqFlag uint64
		name := ""
		switch bpv7.StatusInformationPos(pos) {
		case bpv7.ReceivedBundle:
			reqFlag, name = fReqReceive, "received"
		case bpv7.ForwardedBundle:
			reqFlag, name = fReqForward, "forwarded"
		case bpv7.DeliveredBundle:
			reqFlag, name = fReqDeliver, "delivered"
		case bpv7.DeletedBundle:
			reqFlag, name = fReqDelete, "deleted"
		default:
			n.res.Violate("C15", "well-formed", "report-unknown-status-position", "report %s: position %d", id, pos)
			continue
		}
		requested := tr.spec.Flags&reqFlag != 0
		if name == "received" && !requested && sr.ReportReason == bpv7.BlockUnsupported {
			for _, u := range tr.spec.Unknown {
				if u.Flags&blockFlagReport != 0 {
					requested = true
				}
			}
		}
		if !requested {
			n.res.Violate("C15", "requested", "unrequested-report/"+name, "report %s (%s) asserts %q for %s (flags %x, reason %d), which did not request it", id, where, name, tr.spec.Tag, tr.spec.Flags, sr.ReportReason)
		}
		// did the event happen?
		switch name {
		case "received":
			if tr.via != "deliver" {
				n.res.Violate("C15", "truthful", "untrue-report/received", "report %s (%s): %s was submitted locally, never received from a peer", id, where, tr.spec.Tag)
			}
		case "forwarded":
			if !tr.anySuccess() {
				n.res.Violate("C15", "truthful", "untrue-report/forwarded", "report %s (%s): no transmission of %s has succeeded", id, where, tr.spec.Tag)
			}
		case "delivered":
			if !n.agentGot(tr) {
				n.res.Violate("C15", "truthful", "untrue-report/delivered", "report %s (%s): %s was not handed to any application agent", id, where, tr.spec.Tag)
			}
		case "deleted":
			tr.reportedDeleted = true
		}
		tr.reports[name]++
	}
	if asserted == 0 {
		n.res.Violate("C15", "well-formed", "report-asserts-nothing", "report %s (%s) about %s asserts no status", id, where, tr.spec.Tag)
	}
	// no cascade: bounded number of reports per event
	recs := 1 + tr.reinjected
	// per reception: one report if the bundle asked for it, one more for every unsupported block that asks for one
	perRec := 1
	for _, u := range tr.spec.Unknown {
		if u.Flags&blockFlagReport != 0 {
			perRec++
		}
	}
	if perRec < 2 {
		perRec = 2
	}
	if tr.reports["received"] > perRec*recs || tr.reports["deleted"] > recs+1 || tr.reports["delivered"] > recs {
		n.res.Violate("C15", "no-cascade", "more-reports-than-events", "%s: reports %v for %d receptions", tr.spec.Tag, tr.reports, recs)
	}
}

// idsOf: the IDs under which a workload bundle is known (as injected, and as transmitted).
func (n *nodeSim) idsOf(tr *btrack) []string {
	var ids []string
	if tr.via == "deliver" {
		ids = append(ids, tr.id.String())
	}
	if tr.assignedID != "" {
		ids = append(ids, tr.assignedID)
	}
	for _, s := range tr.sends {
		ids = append(ids, s.idStr)
	}
	return ids
}

func (n *nodeSim) agentGot(tr *btrack) bool {
	if n.appAgent == nil {
		return false
	}
	for _, ag := range n.allAgents {
		for _, b := range ag.received() {
			if bytes.HasPrefix(payloadOf(&b), []byte(tr.spec.Tag+"|")) {
				return true
			}
		}
	}
	return false
}

func (n *nodeSim) sentInEpoch(tr *btrack, epoch int) bool {
	for _, s := range tr.sends {
		if s.rootEpoch == epoch {
			return true
		}
	}
	return false
}

// submissionRank: how many earlier local submissions of this incarnation share the bundle's
// source and creation time.
func (n *nodeSim) submissionRank(tr *btrack) int {
	k := 0
	for _, o := range n.tracks {
		if o != tr && o.via != "deliver" && o.incarnAcc == tr.incarnAcc && o.subSeq < tr.subSeq &&
			o.bundle.PrimaryBlock.SourceNode == tr.bundle.PrimaryBlock.SourceNode &&
			o.bundle.PrimaryBlock.CreationTimestamp[0] == tr.bundle.PrimaryBlock.CreationTimestamp[0] {
			k++
		}
	}
	return k
}
