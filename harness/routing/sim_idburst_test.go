package routing

// C14, "submitted concurrently": K submitters push M bundles each through the real Core.SendBundle
// (IdKeeper, store, dispatch) at the same fake instant - same source, same creation time (or the
// zero time with an age block) - released together by a barrier. The simulator opens the window (one
// instant of the fake clock, every submitter runnable at once, hooks off so that nothing serialises
// them); the order inside it belongs to the Go scheduler. On the unchanged tree every order must give
// pairwise distinct IDs, each filed in the store, so the check cannot raise a false alarm; a change
// that breaks the property only for true overlaps (a read-modify-write of the sequence counter that is
// no longer atomic) shows up with a probability that grows with K x M, not with certainty. The
// orchestrator therefore confirms such a violation by repeated fresh-process runs of the same case.

import (
	"fmt"
	"io/ioutil"
	"os"
	"sort"
	"strings"
	"sync"
	"testing"
	"testing/synctest"
	"time"

	"github.com/dtn7/dtn7-go/pkg/bpv7"

	"verif.local/simk"
)

func runIDBurstCase(c *simk.Case) *simk.Result {
	res := &simk.Result{}
	lg := &simk.Log{}
	scratch := os.Getenv("VERIF_SCRATCH")
	if scratch == "" {
		scratch = "/dev/shm"
	}
	dir, err := ioutil.TempDir(scratch, "verif-idburst-")
	if err != nil {
		res.HarnessErr = err.Error()
		return res
	}
	defer os.RemoveAll(dir)
	simSilenceLogs()
	simHookMu.Lock()
	defer simHookMu.Unlock()
	func() {
		defer func() {
			if r := recover(); r != nil {
				msg := fmt.Sprint(r)
				if !strings.Contains(msg, "blocked goroutines remain") && !strings.Contains(msg, "deadlock: main bubble goroutine has exited") {
					if res.HarnessErr == "" {
						res.HarnessErr = "bubble panic: " + msg
					}
				}
			}
		}()
		synctest.Test(simT, func(t *testing.T) { idBurstBody(c, res, lg, dir) })
	}()
	res.LogHash, res.Log = lg.Hash(), lg.Lines
	return res
}

func idBurstBody(c *simk.Case, res *simk.Result, lg *simk.Log, dir string) {
	r := simk.NewRand(c.Seed, "clock")
	time.Sleep(time.Duration(366+r.Intn(3000))*24*time.Hour + time.Duration(r.Intn(86400000))*time.Millisecond)
	core, err := NewCore(dir, bpv7.MustNewEndpointID(simNodeEID), false, RoutingConf{Algorithm: "epidemic"}, nil)
	if err != nil {
		res.HarnessErr = "NewCore: " + err.Error()
		return
	}
	synctest.Wait()
	k, m := c.CfgInt("submitters", 4), c.CfgInt("each", 200)
	zero := c.CfgB("zero_time")
	bundles := make([][]*bpv7.Bundle, k)
	for i := 0; i < k; i++ {
		for j := 0; j < m; j++ {
			bld := bpv7.Builder().CRC(bpv7.CRC32).Source(simNodeEID + "app").Destination("dtn://far/away").Lifetime("1h").
				PayloadBlock([]byte(fmt.Sprintf("S%02d-%05d", i, j)))
			if zero {
				bld = bld.CreationTimestampEpoch().BundleAgeBlock(0)
			} else {
				bld = bld.CreationTimestampNow()
			}
			b, err := bld.Build()
			if err != nil {
				res.HarnessErr = err.Error()
				return
			}
			bundles[i] = append(bundles[i], &b)
		}
	}
	// one barrier per round: in every round all K submitters enter SendBundle (IdKeeper first) together
	for j := 0; j < m; j++ {
		start := make(chan struct{})
		var wg sync.WaitGroup
		for i := 0; i < k; i++ {
			wg.Add(1)
			go func(b *bpv7.Bundle) {
				defer wg.Done()
				<-start
				core.SendBundle(b)
			}(bundles[i][j])
		}
		synctest.Wait()
		close(start) // the window: every submitter runnable at the same fake instant
		wg.Wait()
	}
	synctest.Wait()
	res.Fault("concurrent_submission_burst")
	// every bundle has its own ID, and the store files each under that ID
	seen := map[string]string{}
	dups, missing := 0, 0
	var firstDup, firstMissing string
	for i := range bundles {
		for _, b := range bundles[i] {
			id := b.ID().String()
			who := string(payloadOf(b))
			if other, ok := seen[id]; ok {
				dups++
				if firstDup == "" {
					firstDup = fmt.Sprintf("%s and %s both got %s", other, who, id)
				}
				continue
			}
			seen[id] = who
			bi, err := core.store.QueryId(b.ID())
			if err != nil || len(bi.Parts) == 0 {
				missing++
				if firstMissing == "" {
					firstMissing = fmt.Sprintf("%s (%s)", who, id)
				}
				continue
			}
			if lb, err := bi.Parts[0].Load(); err != nil || string(payloadOf(&lb)) != who {
				missing++
				if firstMissing == "" {
					firstMissing = fmt.Sprintf("%s (%s): the store holds another bundle under this ID", who, id)
				}
			}
		}
	}
	if dups > 0 {
		res.Violate("C14", "distinct-ids", "two-bundles-same-id/concurrent-burst", "%d of %d concurrently submitted bundles share an ID with another one, e.g. %s", dups, k*m, firstDup)
	}
	if missing > 0 {
		res.Violate("C14", "filed-under-its-id", "submitted-bundle-not-filed-under-its-id/concurrent-burst", "%d of %d concurrently submitted bundles are not in the store under the ID they carry, e.g. %s", missing, k*m, firstMissing)
	}
	var ids []string
	for id := range seen {
		ids = append(ids, id)
	}
	sort.Strings(ids)
	lg.Add("burst submitters=%d each=%d zero=%v distinct=%d first=%s last=%s", k, m, zero, len(ids), ids[0], ids[len(ids)-1])
	res.Steps, res.Nontrivial = k*m, true
	done := make(chan struct{})
	go func() { core.Close(); _ = core.agentManager.Close(); close(done) }()
	synctest.Wait()
}

func genIDBurstCase(seed uint64, tier, focus, variant string) *simk.Case {
	r := simk.NewRand(seed, "script")
	return &simk.Case{Harness: "idburst", Seed: seed, Cfg: map[string]interface{}{
		"submitters": r.Pick(2, 4, 8, 12), "each": r.Pick(50, 150, 300), "zero_time": r.Bool(0.3)}}
}
