package routing

func (n *nodeSim) checkSprayChoice(tr *btrack, rec *sendRec) {}
func (n *nodeSim) spraySendDone(tr *btrack, rec *sendRec)    {}
