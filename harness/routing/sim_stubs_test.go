package routing
