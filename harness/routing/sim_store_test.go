package routing

// C08: the real storage.Store (badgerhold/badger on real files) against an in-memory reference
// map, with crashes at every instrumented point inside Push and Delete (the directory is
// snapshotted while the operation is parked there = what a killed process leaves behind),
// forced interleavings of concurrent fragment pushes, and close/reopen. DESIGN.md §4 C08.

import (
	"bytes"
	"fmt"
	"io"
	"io/ioutil"
	"os"
	"path/filepath"
	"sort"
	"strconv"
	"strings"
	"testing"
	"testing/synctest"
	"time"

	"github.com/dtn7/dtn7-go/pkg/bpv7"
	"github.com/dtn7/dtn7-go/pkg/storage"

	"verif.local/simk"
)

type storeBSpec struct {
	Tag    string `json:"tag"`
	PayLen int    `json:"pay_len"`
	LifeMs uint64 `json:"life_ms"`
	CRC    int    `json:"crc"`
	Frag   bool   `json:"frag"` // this bundle only ever appears as fragments
}

type storeExtra struct {
	Bundles []storeBSpec `json:"bundles"`
}

// storeCrash aborts an operation at a crash point: the goroutine unwinds out of the store without
// executing another step, like a killed process.
type storeCrash struct{}

var errStoreCrashed = fmt.Errorf("sim: process killed inside the operation")

type mPart struct {
	off, length uint64
	wire        []byte
}

type mRec struct {
	tag     string
	id      bpv7.BundleID // scrubbed
	frag    bool
	total   uint64
	parts   []mPart
	pending bool
	prop    string
	expires time.Time // value of the record's expiry index
	lifeEnd time.Time // end of the bundle's own lifetime (afterwards its parts no longer parse as valid)
	payload []byte
	concurrentlyPushed bool
	halfDeleted        bool // a kill inside Delete: may be listed, parts may be missing
	maybeGone          bool
}

func (r *mRec) hasPart(off, length uint64) bool {
	for _, p := range r.parts {
		if p.off == off && p.length == length {
			return true
		}
	}
	return false
}

func (r *mRec) covered() bool {
	if !r.frag {
		return true
	}
	ps := append([]mPart(nil), r.parts...)
	sort.Slice(ps, func(i, j int) bool { return ps[i].off < ps[j].off })
	end := uint64(0)
	for _, p := range ps {
		if p.off > end {
			return false
		}
		if e := p.off + p.length; e > end {
			end = e
		}
	}
	return end >= r.total
}

type storeSim struct {
	staleItems map[string]storage.BundleItem
	c     *simk.Case
	ex    storeExtra
	res   *simk.Result
	lg    *simk.Log
	sched *simk.Sched
	seed  uint64
	dir   string
	st    *storage.Store
	model map[string]*mRec // by tag
	built map[string]bpv7.Bundle
	t0    time.Time
	steps int
	crashArmed   bool
	crashAt      int
	crashHits    int
	crashOpDesc  string
	crashTag     string
	concurrent   bool
	snapN        int
	inflightUnreadable bool
	stop         bool
	inPlace      bool // the armed crash aborts the operation and the store is reopened on the same directory
	crashed      bool
}

func runStoreCase(c *simk.Case) *simk.Result {
	res := &simk.Result{}
	s := &storeSim{c: c, res: res, lg: &simk.Log{}, sched: simk.NewSched(), seed: c.Seed, model: map[string]*mRec{}, built: map[string]bpv7.Bundle{}}
	if raw, ok := c.Cfg["extra"]; ok {
		simk.Recode(raw, &s.ex)
	}
	scratch := os.Getenv("VERIF_SCRATCH")
	if scratch == "" {
		scratch = "/dev/shm"
	}
	dir, err := ioutil.TempDir(scratch, "verif-store-")
	if err != nil {
		res.HarnessErr = err.Error()
		return res
	}
	s.dir = dir
	defer os.RemoveAll(dir)
	simSilenceLogs()
	simHookMu.Lock()
	defer simHookMu.Unlock()
	storage.SimHook = func(point, key string) { s.hook(point, key) }
	defer func() { storage.SimHook = nil }()
	func() {
		defer func() {
			if r := recover(); r != nil {
				msg := fmt.Sprint(r)
				if !strings.Contains(msg, "blocked goroutines remain") && !strings.Contains(msg, "deadlock: main bubble goroutine has exited") {
					if res.HarnessErr == "" {
						res.HarnessErr = "bubble panic: " + msg
					}
				}
			}
		}()
		synctest.Test(simT, func(t *testing.T) { s.body() })
	}()
	res.LogHash = s.lg.Hash()
	res.Log = s.lg.Lines
	res.Steps = s.steps
	return res
}

// hook: parks only when a crash is armed for this operation or two pushes run concurrently.
func (s *storeSim) hook(point, key string) {
	if s.crashArmed || s.concurrent {
		if v := s.sched.Park("store."+point, key, nil); v == "crash" {
			panic(storeCrash{})
		}
	}
}

func (s *storeSim) open() error {
	st, err := storage.NewStore(filepath.Join(s.dir, "store"))
	if err != nil {
		return err
	}
	s.st = st
	return nil
}

func (s *storeSim) body() {
	r := simk.NewRand(s.seed, "clock")
	time.Sleep(time.Duration(400+r.Intn(3000))*24*time.Hour + time.Duration(r.Intn(86400000))*time.Millisecond)
	s.t0 = time.Now()
	if err := s.open(); err != nil {
		s.res.HarnessErr = "NewStore: " + err.Error()
		return
	}
	for i, op := range s.c.Ops {
		s.lg.Add("op %d %s", i, op.String())
		s.exec(op)
		if s.res.HarnessErr != "" || s.stop {
			break
		}
		s.compare(s.st, "after op "+strconv.Itoa(i)+" "+op.String(), "")
	}
	s.res.SimMs = int64(time.Since(s.t0) / time.Millisecond)
	if s.st != nil {
		_ = s.st.Close()
	}
	s.res.Nontrivial = s.res.Faults["crash_point"]+s.res.Faults["rmw_interleave"]+s.res.Faults["reopen"] > 0
}

func (s *storeSim) spec(i int) *storeBSpec {
	if i < 0 || i >= len(s.ex.Bundles) {
		return nil
	}
	return &s.ex.Bundles[i]
}

func (s *storeSim) payload(sp *storeBSpec) []byte {
	p := []byte(sp.Tag + "|")
	for len(p) < sp.PayLen {
		p = append(p, byte('a'+(len(p)*7)%26))
	}
	return p
}

// whole builds (once) the whole bundle of a spec; creation time = first use.
func (s *storeSim) whole(sp *storeBSpec) (bpv7.Bundle, error) {
	if b, ok := s.built[sp.Tag]; ok {
		return b, nil
	}
	bld := bpv7.Builder()
	switch sp.CRC {
	case 0:
		bld.CRC(bpv7.CRCNo)
	case 1:
		bld.CRC(bpv7.CRC16)
	default:
		bld.CRC(bpv7.CRC32)
	}
	n, _ := strconv.Atoi(sp.Tag[1:])
	b, err := bld.Source("dtn://src/app").Destination("dtn://dst/app").CreationTimestampNow().Lifetime(time.Duration(sp.LifeMs)*time.Millisecond).
		HopCountBlock(64).PayloadBlock(s.payload(sp)).Build()
	if err != nil {
		return b, err
	}
	b.PrimaryBlock.CreationTimestamp[1] = uint64(n + 1)
	s.built[sp.Tag] = b
	return b, nil
}

// fragment cuts [off, off+length) out of the whole bundle (extension blocks go with offset 0).
func (s *storeSim) fragment(sp *storeBSpec, off, length int) (bpv7.Bundle, error) {
	w, err := s.whole(sp)
	if err != nil {
		return w, err
	}
	pay := s.payload(sp)
	if off < 0 || length <= 0 || off+length > len(pay) {
		return w, fmt.Errorf("bad range")
	}
	pb := w.PrimaryBlock
	pb.BundleControlFlags |= bpv7.IsFragment
	pb.FragmentOffset = uint64(off)
	pb.TotalDataLength = uint64(len(pay))
	pb.CRC = nil
	var cbs []bpv7.CanonicalBlock
	if off == 0 {
		hc := bpv7.NewCanonicalBlock(2, bpv7.ReplicateBlock, bpv7.NewHopCountBlock(64))
		cbs = append(cbs, hc)
	}
	pl := bpv7.NewCanonicalBlock(1, 0, bpv7.NewPayloadBlock(append([]byte(nil), pay[off:off+length]...)))
	cbs = append(cbs, pl)
	f, err := bpv7.NewBundle(pb, cbs)
	if err != nil {
		return f, err
	}
	switch sp.CRC {
	case 0:
		f.SetCRCType(bpv7.CRCNo)
		f.PrimaryBlock.SetCRCType(bpv7.CRC32)
	case 1:
		f.SetCRCType(bpv7.CRC16)
	default:
		f.SetCRCType(bpv7.CRC32)
	}
	return f, nil
}

func bundleWire(b *bpv7.Bundle) []byte {
	var buf bytes.Buffer
	_ = b.MarshalCbor(&buf)
	return buf.Bytes()
}

// run executes f on its own goroutine and releases parked tasks; if a crash is armed, the
// directory is snapshotted and verified at the armed hook hit.
func (s *storeSim) run(what string, fs ...func() error) []error {
	errs := make([]error, len(fs))
	done := make([]bool, len(fs))
	for i, f := range fs {
		i, f := i, f
		s.sched.SetCause(fmt.Sprintf("%s.%d", what, i))
		go func() {
			defer func() {
				if r := recover(); r != nil {
					if _, ok := r.(storeCrash); ok {
						errs[i] = errStoreCrashed
					} else {
						errs[i] = fmt.Errorf("panic: %v", r)
						s.res.Violate("C08", "no-panic", "store-operation-panics/"+what, "%s panicked: %v", what, r)
					}
				}
				done[i] = true
			}()
			errs[i] = f()
		}()
		if !s.concurrent {
			s.drain()
		} else {
			// let this task run up to its first schedule point before the next one starts, so that
			// labels (lineage) do not depend on goroutine start-up order; nothing is released yet
			synctest.Wait()
		}
	}
	s.drain()
	for i := range done {
		if !done[i] {
			s.res.Violate("C08", "returns", "store-operation-does-not-return/"+what, "%s did not return", what)
		}
	}
	return errs
}

func (s *storeSim) drain() {
	for {
		synctest.Wait()
		parked := s.sched.Parked()
		if len(parked) == 0 {
			return
		}
		s.steps++
		if s.crashArmed {
			s.crashHits++
			if s.crashHits == s.crashAt {
				s.lg.Add("crash point %s:%s (hit %d) during %s", parked[0].Point, shortKey(parked[0].Key), s.crashHits, s.crashOpDesc)
				s.res.Fault("crash_point")
				s.res.Probe("crash_at_" + parked[0].Point)
				s.snapshotAndVerify(parked[0].Point)
			}
		}
		if s.crashArmed && s.inPlace && s.crashHits == s.crashAt && !s.crashed {
			s.crashed = true
			s.res.Fault("crash_in_place")
			s.lg.Add("killed at %s:%s", parked[0].Point, shortKey(parked[0].Key))
			s.sched.Release(parked[0], "crash")
			continue
		}
		t := parked[0]
		if s.concurrent && len(parked) > 1 {
			t = parked[int(simk.Decide(s.seed, "pick", strconv.Itoa(s.steps))%uint64(len(parked)))]
			s.res.Fault("rmw_interleave")
		}
		s.lg.Add("release %s:%s", t.Point, shortKey(t.Key))
		s.sched.Release(t, "go")
	}
}

func (s *storeSim) exec(op simk.Op) {
	sp := s.spec(op.B)
	switch op.K {
	case "advance":
		time.Sleep(time.Duration(op.N) * time.Millisecond)
	case "push":
		if sp == nil || sp.Frag {
			return
		}
		s.inPlace = op.P == 1
		s.opPush(sp, op.M)
	case "push_frag":
		if sp == nil || !sp.Frag || len(op.X) != 2 {
			return
		}
		s.inPlace = op.P == 1
		s.opPushFrag(sp, op.X[0], op.X[1], op.M)
	case "push2":
		if sp == nil || !sp.Frag || len(op.X) != 4 {
			return
		}
		s.opPush2(sp, op.X)
	case "update":
		if sp == nil {
			return
		}
		s.opUpdate(sp, op)
	case "push_whole":
		// the unfragmented bundle arrives (over another path) for a bundle that is otherwise pushed in fragments
		if sp == nil || !sp.Frag {
			return
		}
		s.opPushWholeOfFrag(sp)
	case "update_stale":
		if sp == nil {
			return
		}
		s.opUpdateStale(sp, op)
	case "delete":
		if sp == nil {
			return
		}
		s.inPlace = op.P == 1
		s.opDelete(sp, op.M)
	case "sweep":
		s.opSweep()
	case "reopen":
		s.res.Fault("reopen")
		if err := s.st.Close(); err != nil {
			s.res.Violate("C08", "close", "close-errors", "Close: %v", err)
		}
		if err := s.open(); err != nil {
			s.res.Violate("C08", "reopen", "reopen-fails", "NewStore on the same directory after Close: %v", err)
			s.res.HarnessErr = "cannot continue: " + err.Error()
		}
	}
}

func (s *storeSim) arm(k int64, desc, tag string) {
	s.crashed = false
	s.crashArmed = k > 0
	s.crashAt = int(k)
	s.crashHits = 0
	s.crashOpDesc = desc
	s.crashTag = tag
}

func (s *storeSim) disarm() {
	if s.crashArmed && s.crashHits < s.crashAt {
		s.res.Probe("crash_point_not_reached")
	}
	s.crashArmed = false
}

func (s *storeSim) opPush(sp *storeBSpec, crashAt int64) {
	b, err := s.whole(sp)
	if err != nil {
		s.res.HarnessErr = err.Error()
		return
	}
	if !time.Now().Before(b.PrimaryBlock.CreationTimestamp.DtnTime().Time().Add(time.Duration(sp.LifeMs) * time.Millisecond)) {
		return // an expired bundle cannot be serialised/parsed any more
	}
	wire := bundleWire(&b)
	s.arm(crashAt, "push "+sp.Tag, sp.Tag)
	errs := s.run("push", func() error { return s.st.Push(b) })
	s.disarm()
	if errs[0] == errStoreCrashed {
		s.afterKill(sp, func(rec *mRec) { rec.parts = []mPart{{0, 0, wire}} }, false, b.ID().Scrub(), b)
		return
	}
	if errs[0] != nil {
		s.res.Violate("C08", "push", "push-errors", "Push(%s): %v", sp.Tag, errs[0])
		return
	}
	if s.model[sp.Tag] == nil {
		s.model[sp.Tag] = &mRec{tag: sp.Tag, id: b.ID().Scrub(), payload: s.payload(sp), total: uint64(sp.PayLen),
			parts: []mPart{{0, 0, wire}}, expires: b.PrimaryBlock.CreationTimestamp.DtnTime().Time().Add(time.Duration(sp.LifeMs) * time.Millisecond)}
		s.model[sp.Tag].lifeEnd = s.model[sp.Tag].expires
	}
}

func (s *storeSim) opPushFrag(sp *storeBSpec, off, length int, crashAt int64) {
	f, err := s.fragment(sp, off, length)
	if err != nil {
		return
	}
	w, _ := s.whole(sp)
	if !time.Now().Before(w.PrimaryBlock.CreationTimestamp.DtnTime().Time().Add(time.Duration(sp.LifeMs) * time.Millisecond)) {
		return
	}
	wire := bundleWire(&f)
	s.arm(crashAt, fmt.Sprintf("push_frag %s [%d,+%d)", sp.Tag, off, length), sp.Tag)
	errs := s.run("pushfrag", func() error { return s.st.Push(f) })
	s.disarm()
	if errs[0] == errStoreCrashed {
		s.afterKillFrag(sp, w, off, length, wire)
		return
	}
	if errs[0] != nil {
		s.res.Violate("C08", "push", "push-errors", "Push(%s fragment): %v", sp.Tag, errs[0])
		return
	}
	s.modelAddFrag(sp, w, off, length, wire)
}

// opPushWholeOfFrag: a record that collects fragments ignores the whole bundle; without a record the
// whole bundle is filed as such and later fragments are ignored.
func (s *storeSim) opPushWholeOfFrag(sp *storeBSpec) {
	b, err := s.whole(sp)
	if err != nil {
		return
	}
	if !time.Now().Before(b.PrimaryBlock.CreationTimestamp.DtnTime().Time().Add(time.Duration(sp.LifeMs) * time.Millisecond)) {
		return
	}
	wire := bundleWire(&b)
	if err := s.run("push_whole", func() error { return s.st.Push(b) })[0]; err != nil {
		s.res.Violate("C08", "push", "push-errors", "Push(%s, whole bundle): %v", sp.Tag, err)
		return
	}
	s.res.Fault("whole_bundle_onto_fragment_record")
	if s.model[sp.Tag] == nil {
		s.model[sp.Tag] = &mRec{tag: sp.Tag, id: b.ID().Scrub(), payload: s.payload(sp), total: uint64(sp.PayLen),
			parts: []mPart{{0, 0, wire}}, expires: b.PrimaryBlock.CreationTimestamp.DtnTime().Time().Add(time.Duration(sp.LifeMs) * time.Millisecond)}
		s.model[sp.Tag].lifeEnd = s.model[sp.Tag].expires
	}
}

func (s *storeSim) modelAddFrag(sp *storeBSpec, w bpv7.Bundle, off, length int, wire []byte) {
	rec := s.model[sp.Tag]
	if rec != nil && !rec.frag {
		return // the whole bundle is stored already: fragments are ignored
	}
	if rec == nil {
		rec = &mRec{tag: sp.Tag, id: w.ID().Scrub(), frag: true, payload: s.payload(sp), total: uint64(sp.PayLen),
			expires: w.PrimaryBlock.CreationTimestamp.DtnTime().Time().Add(time.Duration(sp.LifeMs) * time.Millisecond)}
		rec.lifeEnd = rec.expires
		s.model[sp.Tag] = rec
	}
	if rec.hasPart(uint64(off), uint64(length)) {
		return
	}
	for _, p := range rec.parts {
		if p.off == uint64(off) {
			// The store identifies a fragment by (offset, total length) only: a fragment with a known
			// offset but another length - a distinct fragment - is dropped. Reported once as its own
			// class; the model then follows the store so that everything else stays judged.
			s.res.Violate("C08", "fragments-collected", "fragment-with-known-offset-but-other-length-dropped", "%s: fragment [%d,%d) pushed while [%d,%d) is stored: the store keeps only the first", sp.Tag, off, off+length, p.off, p.off+p.length)
			return
		}
	}
	rec.parts = append(rec.parts, mPart{uint64(off), uint64(length), wire})
}

func (s *storeSim) opPush2(sp *storeBSpec, x []int) {
	fa, err1 := s.fragment(sp, x[0], x[1])
	fb, err2 := s.fragment(sp, x[2], x[3])
	if err1 != nil || err2 != nil || (x[0] == x[2]) {
		return
	}
	if rec := s.model[sp.Tag]; rec != nil {
		for _, p := range rec.parts {
			if (p.off == uint64(x[0]) && p.length != uint64(x[1])) || (p.off == uint64(x[2]) && p.length != uint64(x[3])) {
				return // same part file name as a stored fragment: covered by the serial push_frag case
			}
		}
	}
	w, _ := s.whole(sp)
	if !time.Now().Before(w.PrimaryBlock.CreationTimestamp.DtnTime().Time().Add(time.Duration(sp.LifeMs) * time.Millisecond)) {
		return
	}
	wa, wb := bundleWire(&fa), bundleWire(&fb)
	s.concurrent = true
	s.res.Probe("concurrent_fragment_pushes")
	errs := s.run("push2", func() error { return s.st.Push(fa) }, func() error { return s.st.Push(fb) })
	s.concurrent = false
	for _, e := range errs {
		if e != nil {
			s.res.Violate("C08", "fragments-collected", "concurrent-first-fragments-one-push-fails", "concurrent pushes of two fragments of the not yet stored %s: one Push fails: %v", sp.Tag, e)
			s.stop = true // the model cannot follow which one survived
			return
		}
	}
	s.modelAddFrag(sp, w, x[0], x[1], wa)
	s.modelAddFrag(sp, w, x[2], x[3], wb)
	s.model[sp.Tag].concurrentlyPushed = true
}

func (s *storeSim) opUpdate(sp *storeBSpec, op simk.Op) {
	rec := s.model[sp.Tag]
	if rec == nil {
		return
	}
	bi, err := s.st.QueryId(rec.id)
	if err != nil {
		return // reported by compare
	}
	switch op.S {
	case "pending":
		bi.Pending = op.N != 0
	case "prop":
		bi.Properties["verif/prop"] = fmt.Sprintf("v%d", op.N)
	case "expire":
		bi.Expires = time.Now().Add(time.Duration(op.N) * time.Millisecond)
	}
	errs := s.run("update", func() error { return s.st.Update(bi) })
	if errs[0] != nil {
		s.res.Violate("C08", "update", "update-errors", "Update(%s): %v", sp.Tag, errs[0])
		return
	}
	if s.staleItems == nil {
		s.staleItems = map[string]storage.BundleItem{}
	}
	s.staleItems[sp.Tag] = bi // what a caller may still hold when the record is gone later
	switch op.S {
	case "pending":
		rec.pending = op.N != 0
	case "prop":
		rec.prop = fmt.Sprintf("v%d", op.N)
	case "expire":
		rec.expires = bi.Expires
	}
}

// opUpdateStale: a caller that fetched the item earlier writes its metadata after the record was
// deleted or swept. The record must stay gone (whatever Update returns).
func (s *storeSim) opUpdateStale(sp *storeBSpec, op simk.Op) {
	bi, ok := s.staleItems[sp.Tag]
	if !ok || s.model[sp.Tag] != nil {
		return
	}
	bi.Pending = true
	err := s.run("update_stale", func() error { return s.st.Update(bi) })[0]
	s.res.Fault("update_of_deleted_record")
	s.lg.Add("update through a stale item of %s (record gone) -> error=%v", sp.Tag, err != nil)
}

func (s *storeSim) opDelete(sp *storeBSpec, crashAt int64) {
	rec := s.model[sp.Tag]
	var id bpv7.BundleID
	if rec != nil {
		id = rec.id
	} else {
		w, err := s.whole(sp)
		if err != nil {
			return
		}
		id = w.ID().Scrub()
	}
	s.arm(crashAt, "delete "+sp.Tag, sp.Tag)
	errs := s.run("delete", func() error { return s.st.Delete(id) })
	s.disarm()
	if errs[0] == errStoreCrashed {
		s.reopenAfterKill("delete " + sp.Tag)
		if rec != nil {
			// the record may still be listed (index entry) while part files are gone: a half-deleted
			// record. Nothing is demanded of it except that it can be got rid of.
			rec.halfDeleted = true
		}
		return
	}
	if errs[0] != nil {
		s.res.Violate("C08", "delete", "delete-errors", "Delete(%s): %v", sp.Tag, errs[0])
	}
	delete(s.model, sp.Tag)
}

func (s *storeSim) opSweep() {
	s.run("sweep", func() error { s.st.DeleteExpired(); return nil })
	now := time.Now()
	for tag, rec := range s.model {
		d := now.Sub(rec.expires)
		if d > time.Millisecond {
			delete(s.model, tag)
			s.res.Probe("expired_by_sweep")
		} else if d > -time.Millisecond {
			// within a millisecond of the boundary either outcome is right: follow the store, so that the
			// model does not carry the ambiguity into later operations (a re-push of the same bundle)
			if !s.st.KnowsBundle(rec.id) {
				delete(s.model, tag)
			}
		}
	}
}

func (s *storeSim) sortedTags() []string {
	var ts []string
	for i := range s.ex.Bundles {
		ts = append(ts, s.ex.Bundles[i].Tag)
	}
	return ts
}

// compare checks a store against the reference map. inFlight names the record an unfinished
// (crashed) operation was working on: that record may be in its old or its new state.
func (s *storeSim) compare(st *storage.Store, where, inFlight string) {
	pend, err := st.QueryPending()
	if err != nil {
		s.res.Violate("C08", "query-pending", "query-pending-errors", "%s: QueryPending: %v", where, err)
		return
	}
	pendSet := map[string]bool{}
	for _, bi := range pend {
		pendSet[bi.Id] = true
	}
	wantPend := 0
	for _, tag := range s.sortedTags() {
		sp := s.spec(mustAtoi(tag[1:]))
		rec := s.model[tag]
		var id bpv7.BundleID
		if rec != nil {
			id = rec.id
		} else if b, ok := s.built[tag]; ok {
			id = b.ID().Scrub()
		} else {
			continue
		}
		bi, err := st.QueryId(id)
		known := st.KnowsBundle(id)
		if tag == inFlight {
			// an unfinished operation: absent, or every listed part is readable (never garbage)
			if err == nil {
				for _, p := range bi.Parts {
					if _, lerr := p.Load(); lerr != nil {
						s.res.Probe("inflight_record_part_unreadable")
						s.inflightUnreadable = true
					}
				}
			}
			continue
		}
		if rec == nil {
			if err == nil || known {
				s.res.Violate("C08", "lookup", "deleted-record-still-found", "%s: %s was deleted/expired/never pushed but QueryId finds it", where, tag)
			}
			continue
		}
		if rec.maybeGone || rec.halfDeleted {
			continue // nothing is demanded of a half-deleted record except that it can be removed
		}
		if err != nil {
			sig := "stored-record-not-found"
			if inFlight != "" {
				sig = "acknowledged-record-lost-after-crash"
			}
			s.res.Violate("C08", "lookup", sig, "%s: %s was pushed and not deleted, QueryId: %v", where, tag, err)
			continue
		}
		if !known {
			s.res.Violate("C08", "lookup", "knows-bundle-disagrees", "%s: KnowsBundle(%s) is false but QueryId finds it", where, tag)
		}
		if bi.Pending != rec.pending || pendSet[bi.Id] != rec.pending {
			s.res.Violate("C08", "pending", "pending-flag-differs", "%s: %s pending: record %v, pending-query %v, expected %v", where, tag, bi.Pending, pendSet[bi.Id], rec.pending)
		}
		if rec.pending {
			wantPend++
		}
		if rec.prop != "" {
			if v, _ := bi.Properties["verif/prop"].(string); v != rec.prop {
				s.res.Violate("C08", "properties", "property-differs", "%s: %s property %q, expected %q", where, tag, v, rec.prop)
			}
		}
		if !time.Now().Before(rec.lifeEnd.Add(-2 * time.Millisecond)) {
			continue // the bundle's own lifetime is over: its parts no longer parse as valid bundles
		}
		// parts: each distinct fragment once, byte-identical
		if len(bi.Parts) != len(rec.parts) {
			sig := "fragment-count-differs"
			if rec.concurrentlyPushed {
				sig = "fragment-lost-by-concurrent-push"
				s.stop = true // the model cannot follow which fragment survived
			}
			s.res.Violate("C08", "fragments-collected", sig, "%s: %s has %d parts in the store, %d distinct fragments were pushed", where, tag, len(bi.Parts), len(rec.parts))
		}
		for _, p := range bi.Parts {
			b, lerr := p.Load()
			if lerr != nil {
				s.res.Violate("C08", "read-back", "part-not-readable", "%s: %s part (%d,%d): %v", where, tag, p.FragmentOffset, p.TotalDataLength, lerr)
				continue
			}
			got := bundleWire(&b)
			found := false
			for _, mp := range rec.parts {
				if bytes.Equal(mp.wire, got) {
					found = true
				}
			}
			if !found {
				s.res.Violate("C08", "read-back", "part-reads-back-differently", "%s: %s part (%d,%d) reads back as bytes that were never pushed", where, tag, p.FragmentOffset, p.TotalDataLength)
			}
		}
		if len(bi.Parts) != len(rec.parts) {
			continue
		}
		// completeness and reassembly
		complete := bi.IsComplete()
		if complete != rec.covered() {
			s.res.Violate("C08", "complete-iff-covered", fmt.Sprintf("complete=%v-but-covered=%v", complete, rec.covered()), "%s: %s IsComplete()=%v, fragments %s of %d bytes cover the payload: %v", where, tag, complete, rec.ranges(), rec.total, rec.covered())
		}
		if complete && rec.covered() && rec.frag {
			s.res.Probe("complete_record_loaded")
			func() {
				defer func() {
					if r := recover(); r != nil {
						s.res.Violate("C08", "load", "load-panics", "%s: %s Load() panicked: %v (fragments %s)", where, tag, r, rec.ranges())
					}
				}()
				lb, lerr := bi.Load()
				if lerr != nil {
					s.res.Violate("C08", "load", "complete-record-does-not-load", "%s: %s is complete but Load: %v (fragments %s)", where, tag, lerr, rec.ranges())
					return
				}
				if !bytes.Equal(payloadOrNil(&lb), rec.payload) {
					s.res.Violate("C08", "load", "loaded-payload-differs", "%s: %s Load() payload differs from the original (fragments %s)", where, tag, rec.ranges())
				}
				if lb.PrimaryBlock.BundleControlFlags.Has(bpv7.IsFragment) != false && rec.frag {
					s.res.Violate("C08", "load", "loaded-bundle-still-fragment", "%s: %s", where, tag)
				}
			}()
		}
		_ = sp
	}
	if len(pend) != wantPend && inFlight == "" {
		maybe := 0
		for _, r := range s.model {
			if r.maybeGone || r.halfDeleted {
				maybe++
			}
		}
		if maybe == 0 {
			s.res.Violate("C08", "pending", "pending-query-count-differs", "%s: QueryPending returns %d records, %d are flagged pending", where, len(pend), wantPend)
		}
	}
}

func (r *mRec) ranges() string {
	var sb strings.Builder
	for _, p := range r.parts {
		fmt.Fprintf(&sb, "[%d,%d)", p.off, p.off+p.length)
	}
	return sb.String()
}

func payloadOrNil(b *bpv7.Bundle) []byte {
	pb, err := b.PayloadBlock()
	if err != nil {
		return nil
	}
	return pb.Value.(*bpv7.PayloadBlock).Data()
}

func mustAtoi(s string) int { n, _ := strconv.Atoi(s); return n }

// snapshotAndVerify: the directory as a killed process would leave it; a store, then a whole node,
// is started on the copy.
func (s *storeSim) snapshotAndVerify(point string) {
	s.snapN++
	snap := filepath.Join(s.dir, fmt.Sprintf("snap%d", s.snapN))
	if err := copyTree(filepath.Join(s.dir, "store"), filepath.Join(snap, "store")); err != nil {
		s.res.HarnessErr = "snapshot: " + err.Error()
		return
	}
	// part file names are absolute paths inside the index: point them at the copy by making the
	// copy the original's sibling is not possible, so parts are read through the original paths;
	// they exist there unchanged while the operation is parked (the crashed delete/push has not
	// proceeded). To stay faithful the verification happens now, before the operation resumes.
	was, wasC := s.crashArmed, s.concurrent
	s.crashArmed, s.concurrent = false, false
	defer func() { s.crashArmed, s.concurrent = was, wasC; os.RemoveAll(snap) }()
	st2, err := storage.NewStore(filepath.Join(snap, "store"))
	if err != nil {
		s.res.Violate("C08", "crash-reopen", "store-does-not-open-after-crash/"+point, "killed at %s during %s: NewStore on the surviving directory: %v", point, s.crashOpDesc, err)
		return
	}
	s.inflightUnreadable = false
	s.compare(st2, fmt.Sprintf("after a kill at %s during %s", point, s.crashOpDesc), s.crashTag)
	_ = st2.Close()
	// a whole node on the surviving state: one retry tick (and sometimes a cleaning tick). The node
	// works on the part files of the live directory (the index stores absolute paths), so this is
	// the last thing a run does.
	if s.c.CfgB("node_on_snapshot") {
		s.nodeOnSnapshot(snap, point)
		s.stop = true
	}
}

func (s *storeSim) nodeOnSnapshot(snap, point string) {
	var core *Core
	var err error
	panicked := ""
	done := false
	go func() {
		defer func() {
			if r := recover(); r != nil {
				panicked = fmt.Sprint(r)
			}
			done = true
		}()
		core, err = NewCore(filepath.Join(snap, "store"), bpv7.MustNewEndpointID("dtn://n0/"), false, RoutingConf{Algorithm: "epidemic"}, nil)
	}()
	synctest.Wait()
	if !done || err != nil || panicked != "" {
		s.res.Violate("C08", "crash-restart", "node-does-not-start-after-crash/"+point, "killed at %s during %s: NewCore: done=%v err=%v panic=%s", point, s.crashOpDesc, done, err, panicked)
		return
	}
	s.res.Probe("node_started_on_snapshot")
	d := 11 * time.Second
	if s.c.CfgB("node_cleaning_tick") {
		d = 601 * time.Second
	}
	time.Sleep(d)
	synctest.Wait()
	for tag, rec := range s.model {
		if tag == s.crashTag || rec.maybeGone || !time.Now().Before(rec.expires.Add(-time.Millisecond)) {
			continue
		}
		if _, qerr := core.store.QueryId(rec.id); qerr != nil {
			s.res.Violate("C08", "crash-restart", "node-lost-other-record-after-crash/"+point, "killed at %s during %s: after the restarted node ran for %v, %s is gone: %v", point, s.crashOpDesc, d, tag, qerr)
		}
	}
	go func() { core.Close(); _ = core.agentManager.Close() }()
	synctest.Wait()
}

func copyTree(src, dst string) error {
	return filepath.Walk(src, func(p string, info os.FileInfo, err error) error {
		if err != nil {
			return err
		}
		rel, _ := filepath.Rel(src, p)
		target := filepath.Join(dst, rel)
		if info.IsDir() {
			return os.MkdirAll(target, 0700)
		}
		if info.Name() == "LOCK" {
			return nil
		}
		in, err := os.Open(p)
		if err != nil {
			return err
		}
		defer in.Close()
		out, err := os.OpenFile(target, os.O_CREATE|os.O_WRONLY|os.O_TRUNC, 0600)
		if err != nil {
			return err
		}
		defer out.Close()
		_, err = io.Copy(out, in)
		return err
	})
}

func genStoreCase(seed uint64, tier, focus, variant string) *simk.Case {
	r := simk.NewRand(seed, "script")
	c := &simk.Case{Harness: "store", Seed: seed, Cfg: map[string]interface{}{}}
	c.Cfg["node_on_snapshot"] = r.Bool(0.35)
	c.Cfg["node_cleaning_tick"] = r.Bool(0.2)
	nb := r.Range(1, 4)
	ex := storeExtra{}
	for i := 0; i < nb; i++ {
		sp := storeBSpec{Tag: fmt.Sprintf("S%d", i), PayLen: r.Pick(8, 16, 24, 40, 100), CRC: r.Pick(0, 1, 2), Frag: r.Bool(0.5)}
		if r.Bool(0.25) {
			sp.LifeMs = uint64(r.Range(2000, 30000))
		} else {
			sp.LifeMs = uint64(r.Range(3600000, 86400000))
		}
		ex.Bundles = append(ex.Bundles, sp)
	}
	c.Cfg["extra"] = ex
	n := r.Range(3, 16)
	if tier == "thorough" {
		n = r.Range(3, 30)
	}
	rng := func(sp *storeBSpec) (int, int) {
		// ranges on a coarse grid so that exact covers, overlaps and containment all occur
		g := sp.PayLen / 4
		a := r.Intn(4)
		l := r.Range(1, 4-a)
		if r.Bool(0.15) {
			return a*g + r.Intn(g), r.Range(1, g)
		}
		return a * g, l * g
	}
	for i := 0; i < n; i++ {
		b := r.Intn(nb)
		sp := &ex.Bundles[b]
		crash := int64(0)
		inPlace := 0
		if r.Bool(0.3) {
			crash = int64(r.Range(1, 3))
			if r.Bool(0.5) {
				inPlace = 1 // the kill is real for the rest of the run: the store is reopened on the surviving directory
			}
		}
		if rw := simk.NewRand(seed, fmt.Sprintf("whole%d", i)); sp.Frag && rw.Bool(0.08) {
			c.Ops = append(c.Ops, simk.Op{K: "push_whole", B: b})
		}
		switch x := r.Intn(100); {
		case x < 38:
			if sp.Frag {
				off, l := rng(sp)
				c.Ops = append(c.Ops, simk.Op{K: "push_frag", B: b, X: []int{off, l}, M: crash, P: inPlace})
			} else {
				c.Ops = append(c.Ops, simk.Op{K: "push", B: b, M: crash, P: inPlace})
			}
		case x < 46:
			if sp.Frag {
				o1, l1 := rng(sp)
				o2, l2 := rng(sp)
				c.Ops = append(c.Ops, simk.Op{K: "push2", B: b, X: []int{o1, l1, o2, l2}})
			}
		case x < 60:
			c.Ops = append(c.Ops, simk.Op{K: "update", B: b, S: r.PickS("pending", "pending", "prop", "expire"), N: int64(r.Pick(0, 1, 1, 5000, 700000))})
		case x < 72:
			c.Ops = append(c.Ops, simk.Op{K: "delete", B: b, M: crash, P: inPlace})
			if rs := simk.NewRand(seed, fmt.Sprintf("stale%d", i)); rs.Bool(0.35) {
				// a caller that fetched the item before writes its metadata now (no-op unless an update preceded)
				c.Ops = append(c.Ops, simk.Op{K: "update_stale", B: b})
			}
		case x < 80:
			c.Ops = append(c.Ops, simk.Op{K: "sweep"})
			if rs := simk.NewRand(seed, fmt.Sprintf("stale%d", i)); rs.Bool(0.35) {
				c.Ops = append(c.Ops, simk.Op{K: "update_stale", B: b})
			}
		case x < 92:
			c.Ops = append(c.Ops, simk.Op{K: "advance", N: int64(r.Pick(1, 500, 3000, 20000, 40000))})
		default:
			c.Ops = append(c.Ops, simk.Op{K: "reopen"})
		}
	}
	return c
}

// reopenAfterKill: the process is gone; a new one opens the same directory.
func (s *storeSim) reopenAfterKill(what string) {
	_ = s.st.Close()
	if err := s.open(); err != nil {
		s.res.Violate("C08", "crash-reopen", "store-does-not-open-after-crash", "killed during %s: NewStore on the same directory: %v", what, err)
		s.res.HarnessErr = "cannot continue: " + err.Error()
		return
	}
	s.res.Probe("reopened_after_kill")
}

// afterKill (whole bundle push): the record is either absent or complete - observe which.
func (s *storeSim) afterKill(sp *storeBSpec, fill func(*mRec), frag bool, id bpv7.BundleID, b bpv7.Bundle) {
	s.reopenAfterKill("push " + sp.Tag)
	if s.st == nil || s.model[sp.Tag] != nil {
		return
	}
	if _, err := s.st.QueryId(id); err == nil {
		rec := &mRec{tag: sp.Tag, id: id, payload: s.payload(sp), total: uint64(sp.PayLen),
			expires: b.PrimaryBlock.CreationTimestamp.DtnTime().Time().Add(time.Duration(sp.LifeMs) * time.Millisecond)}
		rec.lifeEnd = rec.expires
		fill(rec)
		s.model[sp.Tag] = rec // from now on it must behave like an acknowledged record (readable: never garbage)
	}
}

// afterKillFrag: the fragment is either recorded completely or not at all.
func (s *storeSim) afterKillFrag(sp *storeBSpec, w bpv7.Bundle, off, length int, wire []byte) {
	s.reopenAfterKill("push_frag " + sp.Tag)
	if s.st == nil {
		return
	}
	bi, err := s.st.QueryId(w.ID().Scrub())
	if err != nil {
		return
	}
	for _, p := range bi.Parts {
		if p.FragmentOffset == uint64(off) {
			if rec := s.model[sp.Tag]; rec == nil || !rec.hasPart(uint64(off), uint64(length)) {
				s.modelAddFrag(sp, w, off, length, wire)
			}
		}
	}
}
