package routing

// C18: copy budgets of spray-and-wait and binary spray, observed on the wire (DESIGN.md App. A.4).

import (
	"github.com/dtn7/dtn7-go/pkg/bpv7"
)

type sprayState struct {
	held      int              // copies the node holds (binary) per the sequence oracle
	inflight  map[*sendRec]int // announced copies of transmissions without outcome yet
	successes int              // vanilla: successful transmissions to peers other than the destination
	failed    bool
	unknown   bool // the node lost its in-memory spray state (restart) or the start value is unspecified
}

func (n *nodeSim) sprayL() int { return n.c.CfgInt("spray_l", 4) }

func (n *nodeSim) sprayOf(tr *btrack) *sprayState {
	if tr.spray == nil {
		st := &sprayState{inflight: map[*sendRec]int{}}
		switch {
		case tr.spec.Src == "dtn:none":
			st.unknown = true // an anonymous bundle cannot be recognised as "originated at this node"
		case tr.via != "deliver":
			st.held = n.sprayL()
		case tr.spec.Spray > 0:
			st.held = tr.spec.Spray
		default:
			st.unknown = true // relayed without an announcement: the statement says nothing
		}
		tr.spray = st
	}
	return tr.spray
}

func announcedCopies(b *bpv7.Bundle) (int, bool) {
	cb, err := b.ExtensionBlock(bpv7.ExtBlockTypeBinarySprayBlock)
	if err != nil {
		return 0, false
	}
	return int(cb.Value.(*bpv7.BinarySprayBlock).RemainingCopies()), true
}

// checkSprayChoice is called for algorithm-chosen transmissions (peer is not the destination).
func (n *nodeSim) checkSprayChoice(tr *btrack, rec *sendRec) {
	if n.algo != "binary_spray" {
		return
	}
	st := n.sprayOf(tr)
	if st.unknown {
		return
	}
	n.res.Probe("binary_spray_transmission_judged")
	infl := 0
	for _, a := range st.inflight {
		infl += a
	}
	avail := st.held - infl
	ann, ok := announcedCopies(&rec.bundle)
	suffix := ""
	if infl > 0 {
		suffix = "/overlapping-transmissions"
	} else if st.failed {
		suffix = "/after-failed-transmission"
	}
	if avail <= 1 {
		n.res.Violate("C18", "single-copy-waits", "single-copy-holder-transmits-to-non-destination"+suffix, "%s: the node holds %d copy (held %d, in flight %d) but offered the bundle to p%d, which is not the destination", rec.tag, avail, st.held, infl, rec.peer)
		st.inflight[rec] = 0
		return
	}
	if !ok {
		n.res.Violate("C18", "conservation", "transmitted-without-copy-announcement", "%s to p%d carries no binary spray block", rec.tag, rec.peer)
		st.inflight[rec] = 0
		return
	}
	if ann != avail/2 {
		n.res.Violate("C18", "conservation", "announced-copies-not-half-of-held"+suffix, "%s to p%d announces %d copies; the node held %d (in flight %d): half rounded down is %d", rec.tag, rec.peer, ann, avail, infl, avail/2)
	}
	st.inflight[rec] = ann
}

func (n *nodeSim) spraySendDone(tr *btrack, rec *sendRec) {
	if n.algo != "spray" && n.algo != "binary_spray" {
		return
	}
	if rec.peer == tr.dstPeer(n) {
		return
	}
	st := n.sprayOf(tr)
	switch n.algo {
	case "spray":
		if tr.via == "deliver" || st.unknown {
			return
		}
		if rec.outcome == "ok" {
			st.successes++
			n.res.Probe("spray_copy_given")
			if st.successes > n.sprayL()-1 {
				sig := "budget-exceeded"
				if tr.overlapRMW {
					sig += "/overlapping-updates"
				}
				n.res.Violate("C18", "budget", sig, "%s: %d successful transmissions to peers other than the destination, budget L=%d allows %d", rec.tag, st.successes, n.sprayL(), n.sprayL()-1)
			}
		} else {
			st.failed = true
		}
	case "binary_spray":
		a, ok := st.inflight[rec]
		delete(st.inflight, rec)
		if !ok || st.unknown {
			return
		}
		if rec.outcome == "ok" {
			st.held -= a
		} else {
			st.failed = true
			n.res.Probe("binary_spray_failed_transmission")
		}
	}
}

// sprayFinale: a failed transmission gives its copy back - with enough peers after the faults
// stopped, all L-1 copies are eventually handed out (vanilla spray).
func (n *nodeSim) sprayFinale() {
	if n.algo != "spray" || n.incarn != 1 {
		return
	}
	L := n.sprayL()
	for i := 0; i < len(n.ex.Bundles); i++ {
		tr := n.tracks[i]
		if tr == nil || tr.via == "deliver" || tr.localDst || tr.refused != "" || !n.live(tr) || tr.spec.Src == "dtn:none" {
			continue
		}
		dp := tr.dstPeer(n)
		if dp != 0 && (n.connected(dp) || tr.successTo(dp) != nil) {
			continue // direct delivery takes the bundle out of spraying
		}
		st := n.sprayOf(tr)
		candidates := 0
		for _, ps := range n.peers[1:] {
			if ps.idx == dp {
				continue
			}
			if tr.successTo(ps.idx) != nil || n.connected(ps.idx) {
				candidates++
			}
		}
		want := L - 1
		if candidates < want {
			want = candidates
		}
		if st.successes < want {
			sig := "copy-leaked"
			if tr.overlapRMW {
				sig += "/overlapping-updates"
			} else if st.failed {
				sig += "/after-failed-transmission"
			}
			n.res.Violate("C18", "failure-returns-copy", sig, "%s (L=%d): %d copies were handed out although %d peers were available after the faults stopped for a full retry interval: %d expected", tr.spec.Tag, L, st.successes, candidates, want)
		}
	}
}
