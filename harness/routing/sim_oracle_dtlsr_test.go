package routing

// C20: DTLSR forwards along a least-cost path of the known link-state graph (DESIGN.md §4 C20,
// App. A.6). The routing table is observed behaviourally: which scripted peer is handed a unicast
// bundle. Reference: Floyd-Warshall over {own links} + {newest link-state data per node}.

import (
	"fmt"
	"sort"
	"strconv"
	"strings"
	"time"

	"github.com/dtn7/dtn7-go/pkg/bpv7"
	"github.com/dtn7/dtn7-go/pkg/cla"
)

type lsData struct {
	ts    int64            // DTN time (ms) of the data
	links map[string]int64 // neighbour -> 0 (live) or DTN time of the loss
}

type dtlsrState struct {
	own        map[string]int64 // neighbour -> 0 live / loss time
	recv       map[string]lsData
	lastChange int         // logical sequence number of the last change
	seq        int
	ticks      []time.Time // recompute tick instants after the last change
	tickSeq    []int
	lsFrom     map[string]int // link-state bundle ID -> peer named in the previous-node block it arrived with
	purge      time.Duration
	lsSeq      int
	sentOK     map[string]map[int]int // broadcast bundle id -> peer -> epoch of success
}

func (n *nodeSim) dtlsr() *dtlsrState {
	if n.dst == nil {
		d, err := time.ParseDuration(n.c.CfgS("purge", "10m"))
		if err != nil {
			d = 10 * time.Minute
		}
		n.dst = &dtlsrState{own: map[string]int64{}, recv: map[string]lsData{}, purge: d, sentOK: map[string]map[int]int{}}
	}
	return n.dst
}

func dtnNow() int64 { return int64(bpv7.DtnTimeNow()) }

func lsNode(code int) string {
	switch {
	case code == 0:
		return simNodeEID
	case code >= 1 && code <= 9:
		return simPeerEID(code)
	default:
		return fmt.Sprintf("dtn://r%d/", code-10)
	}
}

func (st *dtlsrState) changed() {
	st.seq++
	st.lastChange = st.seq
	st.ticks, st.tickSeq = nil, nil
}

func (n *nodeSim) dtlsrPeerUp(ps *peerState) {
	if n.algo != "dtlsr" {
		return
	}
	st := n.dtlsr()
	st.own[ps.eid.String()] = 0
	st.changed()
}

func (n *nodeSim) dtlsrPeerDown(ps *peerState) {
	if n.algo != "dtlsr" {
		return
	}
	st := n.dtlsr()
	if _, ok := st.own[ps.eid.String()]; ok {
		st.own[ps.eid.String()] = dtnNow()
	}
	st.changed()
}

func (n *nodeSim) dtlsrCron(job string) {
	st := n.dtlsr()
	switch job {
	case "dtlsr_recompute":
		st.seq++
		st.ticks = append(st.ticks, time.Now())
		st.tickSeq = append(st.tickSeq, st.seq)
		n.res.Probe("dtlsr_recompute_tick")
	case "dtlsr_purge":
		now := time.Now()
		for k, ts := range st.own {
			if ts != 0 && bpv7.DtnTime(ts).Time().Add(st.purge).Before(now) {
				delete(st.own, k)
				st.changed()
				n.res.Probe("dtlsr_neighbour_purged")
			}
		}
	}
}

// execLS: a link-state bundle of node op.M (origin code) arrives through peer op.P.
// op.N: timestamp of the data in ms relative to the start of the run (may be negative);
// op.X: pairs (neighbour code, 0 = live | loss time relative to the start of the run, in ms, +1).
func (n *nodeSim) execLS(p int, origin int, tsRel int64, x []int) {
	if n.core == nil || n.algo != "dtlsr" {
		return
	}
	st := n.dtlsr()
	base := int64(bpv7.DtnTimeFromTime(n.simT0))
	now := dtnNow()
	ts := base + tsRel
	if ts > now {
		ts = now
	}
	if ts < 1 {
		ts = 1
	}
	oid := lsNode(origin)
	if oid == simNodeEID {
		return
	}
	links := map[string]int64{}
	peers := map[bpv7.EndpointID]bpv7.DtnTime{}
	for i := 0; i+1 < len(x); i += 2 {
		nb := lsNode(x[i])
		if nb == oid {
			continue
		}
		var lt int64
		if x[i+1] != 0 {
			lt = base + int64(x[i+1]) - 1
			if lt > now {
				lt = now
			}
			if lt < 1 {
				lt = 1
			}
		}
		links[nb] = lt
		peers[bpv7.MustNewEndpointID(nb)] = bpv7.DtnTime(lt)
	}
	data := bpv7.DTLSRPeerData{ID: bpv7.MustNewEndpointID(oid), Timestamp: bpv7.DtnTime(ts), Peers: peers}
	bld := bpv7.Builder().CRC(bpv7.CRC32).Source(oid).Destination(dtlsrBroadcastAddress).CreationTimestampNow().Lifetime("1m").
		BundleCtrlFlags(bpv7.MustNotFragmented)
	if p >= 1 && p < len(n.peers) {
		bld.PreviousNodeBlock(simPeerEID(p))
	}
	b, err := bld.Canonical(bpv7.NewDTLSRBlock(data)).PayloadBlock(byte(1)).Build()
	if err != nil {
		n.lg.Add("ls bundle build failed: %v", err)
		return
	}
	st.lsSeq++
	b.PrimaryBlock.CreationTimestamp[1] = uint64(2000 + st.lsSeq)
	wire, err := encodeBundle(&b)
	if err != nil {
		return
	}
	pb, err := bpv7.ParseBundle(bytesReader(wire))
	if err != nil {
		n.lg.Add("ls bundle does not parse: %v", err)
		return
	}
	// reference: data from a node is replaced only by data with a strictly newer timestamp
	if old, ok := st.recv[oid]; !ok || ts > old.ts {
		st.recv[oid] = lsData{ts: ts, links: links}
		st.changed()
		n.res.Probe("dtlsr_linkstate_accepted")
	} else {
		n.res.Probe("dtlsr_linkstate_stale_or_equal")
		n.res.Fault("ls_stale_or_dup")
	}
	if p >= 1 && p < len(n.peers) {
		if st.lsFrom == nil {
			st.lsFrom = map[string]int{}
		}
		if _, dup := st.lsFrom[pb.ID().String()]; !dup {
			st.lsFrom[pb.ID().String()] = p
		}
	}
	recv := n.recv
	n.inject("ls:"+oid, func() {
		select {
		case recv.ch <- cla.NewConvergenceReceivedBundle(recv, recv.eid, &pb):
		case <-recv.closed:
		}
	})
}

// firstHops returns the set of own neighbours that start a minimum-cost path to dest at instant
// t, and whether dest is reachable at all.
func (st *dtlsrState) firstHops(dest string, t time.Time) (map[string]bool, bool) {
	now := int64(bpv7.DtnTimeFromTime(t))
	idx := map[string]int{simNodeEID: 0}
	names := []string{simNodeEID}
	add := func(s string) {
		if _, ok := idx[s]; !ok {
			idx[s] = len(names)
			names = append(names, s)
		}
	}
	var ownKeys []string
	for k := range st.own {
		ownKeys = append(ownKeys, k)
	}
	sort.Strings(ownKeys)
	for _, k := range ownKeys {
		add(k)
	}
	var origins []string
	for o := range st.recv {
		origins = append(origins, o)
	}
	sort.Strings(origins)
	for _, o := range origins {
		add(o)
		var nbs []string
		for nb := range st.recv[o].links {
			nbs = append(nbs, nb)
		}
		sort.Strings(nbs)
		for _, nb := range nbs {
			add(nb)
		}
	}
	add(dest)
	N := len(names)
	const inf = int64(1) << 60
	d := make([][]int64, N)
	for i := range d {
		d[i] = make([]int64, N)
		for j := range d[i] {
			if i != j {
				d[i][j] = inf
			}
		}
	}
	cost := func(lt int64) int64 {
		if lt == 0 {
			return 0
		}
		c := now - lt
		if c < 0 {
			c = 0
		}
		return c
	}
	for _, k := range ownKeys {
		if c := cost(st.own[k]); c < d[0][idx[k]] {
			d[0][idx[k]] = c
		}
	}
	for _, o := range origins {
		for nb, lt := range st.recv[o].links {
			if c := cost(lt); c < d[idx[o]][idx[nb]] {
				d[idx[o]][idx[nb]] = c
			}
		}
	}
	w := make([][]int64, N) // keep the direct arcs
	for i := range d {
		w[i] = append([]int64(nil), d[i]...)
	}
	for k := 0; k < N; k++ {
		for i := 0; i < N; i++ {
			if d[i][k] >= inf {
				continue
			}
			for j := 0; j < N; j++ {
				if d[k][j] < inf && d[i][k]+d[k][j] < d[i][j] {
					d[i][j] = d[i][k] + d[k][j]
				}
			}
		}
	}
	di := idx[dest]
	if d[0][di] >= inf {
		return nil, false
	}
	hops := map[string]bool{}
	for _, k := range ownKeys {
		ki := idx[k]
		if w[0][ki] < inf && d[ki][di] < inf && w[0][ki]+d[ki][di] == d[0][di] {
			hops[k] = true
		}
	}
	return hops, true
}

// dtlsrJudgeUnicast: called at a settled point after a unicast bundle was accepted.
func (n *nodeSim) dtlsrJudgeUnicast(tr *btrack) {
	st := n.dtlsr()
	dest := tr.bundle.PrimaryBlock.Destination.String()
	if tr.dstPeer(n) != 0 && n.connected(tr.dstPeer(n)) {
		return // direct delivery, C05
	}
	if strings.Contains(dest, "routing/dtlsr") || tr.refused != "" || tr.localDst || !n.live(tr) {
		return
	}
	// instants at which the table may have been recomputed since the last change
	var instants []time.Time
	for i, t := range st.ticks {
		if st.tickSeq[i] > st.lastChange {
			instants = append(instants, t)
		}
	}
	var sentTo []int
	for _, s := range tr.sends {
		if s.rootEpoch == tr.epochAcc {
			sentTo = append(sentTo, s.peer)
		}
	}
	n.lg.Add("dtlsr judge %s dest=%s recompute-instants-since-change=%d sent=%v", tr.spec.Tag, dest, len(instants), sentTo)
	if len(instants) == 0 {
		n.res.Probe("dtlsr_probe_before_recompute_not_judged")
		return
	}
	n.res.Probe("dtlsr_unicast_judged")
	union := map[string]bool{}
	reachableAll, reachableAny := true, false
	allConnected := true
	for _, t := range instants {
		h, ok := st.firstHops(dest, t)
		if !ok {
			reachableAll = false
			continue
		}
		reachableAny = true
		for k := range h {
			union[k] = true
			connected := false
			for _, ps := range n.peers[1:] {
				if ps.eid.String() == k && n.connected(ps.idx) {
					connected = true
				}
			}
			if !connected {
				allConnected = false
			}
		}
	}
	var cands []string
	for k := range union {
		cands = append(cands, k)
	}
	sort.Strings(cands)
	if len(sentTo) > 1 {
		n.res.Violate("C20", "single-next-hop", "unicast-bundle-sent-to-several-peers", "%s for %s was handed to peers %v", tr.spec.Tag, dest, sentTo)
	}
	if len(sentTo) == 0 {
		if reachableAll && allConnected && len(cands) > 0 {
			n.res.Violate("C20", "routed-iff-reachable", "reachable-destination-not-routed", "%s for %s: the link-state graph has a path (least-cost first hops %v, all connected) but the bundle was handed to nobody", tr.spec.Tag, dest, cands)
		}
		return
	}
	p := sentTo[0]
	if !reachableAny {
		n.res.Violate("C20", "routed-iff-reachable", "routed-although-unreachable", "%s for %s was handed to p%d although the known link-state graph contains no path to it", tr.spec.Tag, dest, p)
		return
	}
	if !union[simPeerEID(p)] {
		n.res.Violate("C20", "least-cost", "next-hop-not-on-a-least-cost-path", "%s for %s was handed to p%d; first hops of least-cost paths at the recompute instants since the last change: %v", tr.spec.Tag, dest, p, cands)
	} else if len(cands) > 1 {
		n.res.Probe("dtlsr_tie")
	}
}

// dtlsrBroadcastSend: C13 for link-state bundles (broadcast address): never twice to a peer.
func (n *nodeSim) dtlsrBroadcastSend(rec *sendRec, done bool) {
	if n.algo != "dtlsr" || rec.parseErr != nil || rec.bundle.PrimaryBlock.Destination.String() != dtlsrBroadcastAddress {
		return
	}
	st := n.dtlsr()
	if done {
		if rec.outcome == "ok" {
			if st.sentOK[rec.idStr] == nil {
				st.sentOK[rec.idStr] = map[int]int{}
			}
			if _, ok := st.sentOK[rec.idStr][rec.peer]; !ok {
				st.sentOK[rec.idStr][rec.peer] = n.epoch
			}
		}
		return
	}
	n.res.Probe("dtlsr_broadcast_send")
	if ep, ok := st.sentOK[rec.idStr][rec.peer]; ok && ep < rec.rootEpoch && rec.incarn == n.incarn {
		sig := "broadcast-resent-after-success/dtlsr"
		if n.overlapKeys[rec.idStr] {
			// two dispatches of this bundle (its originating one and the pending-retry tick of the same instant)
			// had their read-modify-write of the bundle's routing state interleaved: recorded finding
			sig += "/overlapping-dispatches"
		}
		n.res.Violate("C13", "not-twice", sig, "link-state bundle %s was transmitted successfully to p%d (epoch %d) and offered to it again (dispatch of epoch %d)", rec.idStr, rec.peer, ep, rec.rootEpoch)
	}
	// C13: a broadcast bundle never goes back to the peer named in the previous-node block it arrived with
	if from, ok := st.lsFrom[rec.idStr]; ok && from == rec.peer {
		n.res.Violate("C13", "not-back", "broadcast-sent-back-to-previous-node/dtlsr", "link-state bundle %s arrived with previous node p%d and was offered to p%d", rec.idStr, from, rec.peer)
	}
}

var _ = strconv.Itoa
