package routing

import (
	"strings"
	"fmt"

	"verif.local/simk"
)

// bundle control flags (RFC 9171) used by the generator; kept numeric so that the harness does
// not depend on the names in the code under test.
const (
	fIsFragment  = 0x000001
	fAdmin       = 0x000002
	fNoFragment  = 0x000004
	fAckReq      = 0x000020
	fStatusTime  = 0x000040
	fReqReceive  = 0x004000
	fReqForward  = 0x010000
	fReqDeliver  = 0x020000
	fReqDelete   = 0x040000
)

// genNodeCase draws (config, bundle specs, script) for the node-level harness. focus biases the
// draw towards the part of the space a property lives in; variant fixes the routing algorithm.
func genNodeCase(seed uint64, tier, focus, variant string) *simk.Case {
	cfgR := simk.NewRand(seed, "config")
	r := simk.NewRand(seed, "script")
	algo := variant
	if algo == "" {
		algo = []string{"epidemic", "spray", "binary_spray", "prophet", "dtlsr", "sensor-mule"}[cfgR.Intn(6)]
	}
	c := &simk.Case{Harness: "node", Seed: seed, Cfg: map[string]interface{}{"algo": algo, "focus": focus}}
	np := cfgR.Range(0, 4)
	if cfgR.Bool(0.15) {
		np = cfgR.Range(5, 6)
	}
	if focus == "C13" || focus == "C18" {
		np = cfgR.Range(1, 5)
	}
	c.Cfg["peers"] = np
	c.Cfg["fail_rate"] = []float64{0, 0.1, 0.25, 0.5, 0.8}[cfgR.Intn(5)]
	c.Cfg["spray_l"] = cfgR.Range(1, 8)
	c.Cfg["inspect_all"] = cfgR.Bool(0.3)
	conc := cfgR.Bool(0.4)
	c.Cfg["concurrent"] = conc
	if focus == "C19" {
		consts := []float64{0, 1, 5e-324, 1e-300, 0.5, 0.25, 0.75, 0.98, 0.999999, 0.01}
		pick := func() float64 {
			if cfgR.Bool(0.5) {
				return consts[cfgR.Intn(len(consts))]
			}
			return cfgR.Float()
		}
		c.Cfg["p_init"], c.Cfg["beta"], c.Cfg["gamma"] = pick(), pick(), pick()
		c.Cfg["age_interval"] = cfgR.PickS("1s", "2s", "5s", "30s")
		if np < 2 {
			np = cfgR.Range(2, 4)
			c.Cfg["peers"] = np
		}
	}
	if focus == "C20" {
		c.Cfg["recompute"] = cfgR.PickS("1s", "2s", "5s")
		c.Cfg["broadcast"] = cfgR.PickS("2s", "5s", "10s")
		c.Cfg["purge"] = cfgR.PickS("20s", "60s", "10m")
		np = cfgR.Range(1, 5)
		c.Cfg["peers"] = np
		c.Cfg["fail_rate"] = []float64{0, 0, 0.1, 0.3}[cfgR.Intn(4)]
	}
	nb := r.Range(1, 6)
	if focus == "C20" {
		nb = r.Range(3, 12)
	}
	ex := nodeExtra{}
	for i := 0; i < nb; i++ {
		ex.Bundles = append(ex.Bundles, genSpec(r, i, np, focus, algo))
	}

	// targeted template (DESIGN.md §3.2): several transmissions of one bundle fail at the same
	// moment, their failure reports interleave at the write hooks, then the faults stop
	if (focus == "C05" || focus == "C13" || focus == "C18") && r.Bool(0.3) {
		np = r.Range(2, 5)
		c.Cfg["peers"] = np
		c.Cfg["concurrent"] = true
		ex.Bundles = ex.Bundles[:0]
		sp := genSpec(r, 0, np, focus, algo)
		sp.Src, sp.Prev, sp.Seq, sp.CT, sp.AgeMs, sp.HopLimit, sp.Unknown, sp.Spray = simNodeEID+"app", 0, 0, "now", -1, -1, nil, 0
		sp.Dst = "dtn://r1/svc"
		sp.LifeMs = 7200000
		sp.Flags = 0
		ex.Bundles = append(ex.Bundles, sp)
		first := r.Range(2, np)
		for _, p := range r.Perm(np)[:first] {
			c.Ops = append(c.Ops, simk.Op{K: "peer_up", P: p + 1})
		}
		c.Ops = append(c.Ops, simk.Op{K: "set_fail", N: 100}, simk.Op{K: "submit", B: 0}, simk.Op{K: "set_fail", N: int64(r.Pick(0, 0, 30))})
		if r.Bool(0.5) {
			c.Ops = append(c.Ops, simk.Op{K: "advance", N: int64(r.Range(10500, 12000))})
		}
		for p := 1; p <= np; p++ {
			c.Ops = append(c.Ops, simk.Op{K: "peer_up", P: p})
		}
		c.Ops = append(c.Ops, simk.Op{K: "advance", N: int64(r.Range(10500, 23000))})
		c.Cfg["extra"] = ex
		return c
	}

	// C13 template (replicating algorithms): a bundle received from P for a destination D that is a connected
	// peer; the direct delivery to D fails, D leaves, and retry ticks fire while P (and possibly others) stay
	// connected: the failed direct delivery must not make P - or an earlier recipient - eligible again
	if focus == "C13" && np >= 2 && algo != "dtlsr" && algo != "prophet" && r.Bool(0.2) {
		ex.Bundles = ex.Bundles[:0]
		sp := genSpec(r, 0, np, focus, algo)
		pp, dd := 1, 2
		if r.Bool(0.5) {
			pp, dd = 2, 1
		}
		sp.Src, sp.Prev, sp.Seq, sp.CT, sp.AgeMs, sp.HopLimit, sp.Unknown, sp.Flags, sp.ReportTo = "dtn://s1/app", pp, 1, "now", -1, -1, nil, 0, ""
		sp.Dst = fmt.Sprintf("dtn://p%d/svc", dd)
		sp.LifeMs = 7200000
		if algo == "binary_spray" {
			sp.Spray = r.Pick(2, 4, 5, 8)
		}
		ex.Bundles = append(ex.Bundles, sp)
		for p := 1; p <= np; p++ {
			if p != dd && (p == pp || r.Bool(0.5)) {
				c.Ops = append(c.Ops, simk.Op{K: "peer_up", P: p})
			}
		}
		c.Ops = append(c.Ops, simk.Op{K: "peer_up", P: dd}, simk.Op{K: "set_fail", N: 100}, simk.Op{K: "deliver", B: 0, P: pp},
			simk.Op{K: "set_fail", N: 0}, simk.Op{K: "peer_down", P: dd})
		for k := r.Range(1, 3); k > 0; k-- {
			c.Ops = append(c.Ops, simk.Op{K: "advance", N: int64(r.Range(10500, 12000))})
			if r.Bool(0.3) {
				c.Ops = append(c.Ops, simk.Op{K: "peer_up", P: r.Range(1, np)})
			}
		}
		c.Cfg["extra"] = ex
		return c
	}

	// C13 x PRoPHET template: several peers qualify for one bundle in the same selection round
	// (each advertised a higher predictability for its destination), then the bundle is dispatched again
	if focus == "C13" && algo == "prophet" && r.Bool(0.4) {
		np = r.Range(2, 4)
		c.Cfg["peers"] = np
		c.Cfg["p_init"], c.Cfg["beta"], c.Cfg["gamma"], c.Cfg["age_interval"] = 0.5, 0.25, 0.98, "30s"
		ex.Bundles = ex.Bundles[:0]
		sp := genSpec(r, 0, np, focus, algo)
		sp.Src, sp.Prev, sp.Seq, sp.CT, sp.AgeMs, sp.HopLimit, sp.Unknown, sp.Flags, sp.ReportTo = "dtn://s1/app", 0, 1, "now", -1, -1, nil, 0, ""
		if r.Bool(0.4) {
			sp.Prev = r.Range(1, np)
		}
		sp.Dst = "dtn://r1/"
		sp.LifeMs = 7200000
		ex.Bundles = append(ex.Bundles, sp)
		for p := 1; p <= np; p++ {
			c.Ops = append(c.Ops, simk.Op{K: "vec", P: p, X: []int{1, r.Pick(1, 900, 500, 3)}})
		}
		for _, p := range r.Perm(np) {
			c.Ops = append(c.Ops, simk.Op{K: "peer_up", P: p + 1})
		}
		c.Ops = append(c.Ops, simk.Op{K: "set_fail", N: int64(r.Pick(0, 0, 30))}, simk.Op{K: "deliver", B: 0, P: sp.Prev})
		for k := r.Range(1, 3); k > 0; k-- {
			c.Ops = append(c.Ops, simk.Op{K: "advance", N: int64(r.Range(10500, 12000))})
			if r.Bool(0.3) {
				c.Ops = append(c.Ops, simk.Op{K: "restart", N: 300})
				for p := 1; p <= np; p++ {
					c.Ops = append(c.Ops, simk.Op{K: "vec", P: p, X: []int{1, 900}}, simk.Op{K: "peer_up", P: p})
				}
			}
		}
		c.Cfg["extra"] = ex
		return c
	}

	// C14 template: bursts of submissions whose source and creation time coincide, mixing ordinary
	// and clock-less bundles and both submission paths, with and without a connected peer
	if focus == "C14" && r.Bool(0.5) {
		np = r.Range(0, 2)
		c.Cfg["peers"] = np
		ex.Bundles = ex.Bundles[:0]
		nb := r.Range(3, 8)
		latePast := 0
		if rl := simk.NewRand(seed, "late"); rl.Bool(0.3) {
			latePast = rl.Pick(1500, 4000, 9000, 30000, 70000, 100000)
		}
		for i := 0; i < nb; i++ {
			sp := genSpec(r, i, np, focus, algo)
			sp.Src, sp.Prev, sp.Seq, sp.HopLimit, sp.Unknown, sp.Spray, sp.Flags, sp.ReportTo = simNodeEID+"app", 0, 0, -1, nil, 0, 0, ""
			if r.Bool(0.4) {
				sp.Seq = uint64(r.Pick(1, 2, 3, 7)) // an application that numbers its bundles itself: the node assigns its own number anyway
			}
			if r.Bool(0.2) {
				sp.Src = simNodeEID + "app2"
			}
			sp.Dst = "dtn://r1/svc"
			if np > 0 && r.Bool(0.5) {
				sp.Dst = "dtn://p1/svc"
			}
			sp.LifeMs = 7200000
			if r.Bool(0.35) {
				sp.CT, sp.AgeMs = "zero", int64(r.Pick(0, 1, 500))
			} else {
				sp.CT, sp.AgeMs = "now", -1
			}
			if latePast > 0 && sp.CT == "now" {
				// an application that stamped its bundles itself and hands them over late: same creation time, seconds old
				sp.CT = fmt.Sprintf("past:%d", latePast)
			}
			ex.Bundles = append(ex.Bundles, sp)
		}
		for p := 1; p <= np; p++ {
			if r.Bool(0.7) {
				c.Ops = append(c.Ops, simk.Op{K: "peer_up", P: p})
			}
		}
		for i := 0; i < nb; i++ {
			k := "submit"
			if r.Bool(0.4) {
				k = "submit_agent"
			}
			c.Ops = append(c.Ops, simk.Op{K: k, B: i})
			if r.Bool(0.2) {
				c.Ops = append(c.Ops, simk.Op{K: "advance", N: int64(r.Pick(1, 3, 700))})
			}
		}
		for p := 1; p <= np; p++ {
			c.Ops = append(c.Ops, simk.Op{K: "peer_up", P: p})
		}
		c.Ops = append(c.Ops, simk.Op{K: "advance", N: 11000})
		c.Cfg["extra"] = ex
		return c
	}

	nops := r.Range(4, 24)
	if tier == "thorough" && r.Bool(0.3) {
		nops = r.Range(20, 60)
	}
	injected := map[int]bool{}
	if focus == "C20" {
		return genDtlsrOps(c, r, &ex, np, nb, tier)
	}
	if focus == "C13" && algo == "dtlsr" && np >= 1 && r.Bool(0.5) {
		// DTLSR's broadcast bundles are the replicated ones: link-state histories (reordered, stale, equal
		// timestamps, through different previous nodes) as for C20
		return genDtlsrOps(c, r, &ex, np, nb, tier)
	}
	if focus == "C19" {
		nops = r.Range(10, 80)
		if tier == "thorough" && r.Bool(0.3) {
			nops = r.Range(80, 400)
		}
	}
	for len(c.Ops) < nops {
		x := r.Intn(100)
		if (focus == "C19" || (focus == "C13" && algo == "prophet")) && r.Bool(0.35) && np > 0 {
			var xs []int
			for k := r.Range(1, 4); k > 0; k-- {
				d := r.Range(1, 3)
				if r.Bool(0.3) {
					d = -r.Range(1, np)
				}
				xs = append(xs, d, r.Pick(0, 1, 2, 3, 4, 5, 10+r.Intn(990), 10+r.Intn(990)))
			}
			op := simk.Op{K: "vec", P: r.Range(1, np), X: xs}
			if r.Bool(0.1) {
				op.M = 1
			}
			c.Ops = append(c.Ops, op)
			continue
		}
		switch {
		case x < 22 && np > 0:
			c.Ops = append(c.Ops, simk.Op{K: "peer_up", P: r.Range(1, np)})
		case x < 30 && np > 0:
			c.Ops = append(c.Ops, simk.Op{K: "peer_down", P: r.Range(1, np)})
		case x < 55:
			b := r.Intn(nb)
			sp := &ex.Bundles[b]
			if sp.local() {
				if injected[b] {
					continue
				}
				k := "submit"
				if r.Bool(0.4) {
					k = "submit_agent"
				}
				c.Ops = append(c.Ops, simk.Op{K: k, B: b})
			} else {
				if injected[b] && !r.Bool(0.15) {
					continue
				}
				c.Ops = append(c.Ops, simk.Op{K: "deliver", B: b, P: sp.Prev})
			}
			injected[b] = true
		case x < 90:
			var ms int64
			switch r.Intn(10) {
			case 0, 1, 2:
				ms = int64(r.Range(1, 900))
			case 3, 4:
				ms = int64(r.Range(1000, 9000))
			case 5, 6, 7:
				ms = int64(r.Range(10000, 25000))
			case 8:
				ms = int64(r.Range(30000, 120000))
			default:
				ms = int64(r.Range(600000, 700000)) // across a store-cleaning tick
			}
			c.Ops = append(c.Ops, simk.Op{K: "advance", N: ms})
		case x < 96:
			c.Ops = append(c.Ops, simk.Op{K: "restart", N: int64(r.Pick(20, 300, 1500, 4000))})
		default:
			// burst: several submissions in the same millisecond
			for b := 0; b < nb; b++ {
				if ex.Bundles[b].local() && !injected[b] {
					c.Ops = append(c.Ops, simk.Op{K: "submit", B: b})
					injected[b] = true
				}
			}
		}
	}
	c.Cfg["extra"] = ex
	return c
}

func (sp *BSpec) local() bool { return sp.Src == simNodeEID+"app" || sp.Src == "dtn:none" }

func genSpec(r *simk.Rand, i, np int, focus, algo string) BSpec {
	sp := BSpec{Tag: fmt.Sprintf("B%02d", i), HopLimit: -1, AgeMs: -1, CT: "now", PayLen: r.Pick(4, 10, 30, 200, 1500)}
	// destination
	switch x := r.Intn(10); {
	case x < 5 && np > 0:
		sp.Dst = fmt.Sprintf("dtn://p%d/svc", r.Range(1, np))
	case x < 9:
		sp.Dst = fmt.Sprintf("dtn://r%d/svc", r.Range(1, 3))
	default:
		sp.Dst = simNodeEID + "app"
		if r.Bool(0.4) {
			sp.Dst = simNodeEID + "nobody" // node-local endpoint without a registered agent
		}
	}
	if focus == "C15" && r.Bool(0.25) {
		sp.Dst = simNodeEID + r.PickS("app", "nobody")
	}
	if focus == "C07" {
		sp.Dst = simNodeEID + "app"
	}
	if focus == "C20" {
		// unicast probes towards nodes the link-state data talks about; never locally originated
		sp.Dst = lsNode(r.Pick(1, 2, 3, 4, 5, 11, 12, 13))
		if np > 0 && r.Bool(0.3) {
			sp.Dst = lsNode(r.Range(1, np))
		}
	}
	if focus == "C19" || (focus == "C13" && algo == "prophet") {
		// endpoints that summary vectors talk about
		if np > 0 && r.Bool(0.3) {
			sp.Dst = fmt.Sprintf("dtn://p%d/", r.Range(1, np))
		} else {
			sp.Dst = fmt.Sprintf("dtn://r%d/", r.Range(1, 3))
		}
	}
	// origin
	if r.Bool(0.5) {
		sp.Src = simNodeEID + "app"
		if r.Bool(0.1) {
			sp.Src = "dtn:none"
			sp.Flags |= fNoFragment
		}
	} else {
		sp.Src = fmt.Sprintf("dtn://s%d/app", r.Range(1, 3))
		if np > 0 && r.Bool(0.7) {
			sp.Prev = r.Range(1, np)
			if sp.Dst == fmt.Sprintf("dtn://p%d/svc", sp.Prev) {
				// a peer does not forward a bundle that is addressed to itself
				sp.Dst = fmt.Sprintf("dtn://r%d/svc", r.Range(1, 3))
			}
		} else if r.Bool(0.3) {
			sp.Prev = -1
		}
		sp.Seq = uint64(i + 1) // distinct bundles never share an ID: (source, time, sequence) is unique per spec
		if r.Bool(0.5) {
			sp.CT = fmt.Sprintf("past:%d", r.Range(1, 20000))
		}
	}
	pHop, pAge, pUnk, pRep := 0.3, 0.2, 0.2, 0.2
	switch focus {
	case "C06":
		pHop, pAge, pUnk = 0.6, 0.5, 0.4
	case "C15":
		pRep, pUnk, pHop = 0.85, 0.35, 0.4
	}
	// lifetime
	switch r.Intn(6) {
	case 0:
		sp.LifeMs = uint64(r.Range(3000, 40000))
	case 1:
		sp.LifeMs = uint64(r.Range(60000, 900000))
	default:
		sp.LifeMs = uint64(r.Range(3600000, 86400000))
	}
	// clock-less bundles
	if r.Bool(0.15) {
		sp.CT = "zero"
		sp.AgeMs = int64(r.Pick(0, 1, 500, 5000))
		if sp.LifeMs < 30000 {
			sp.LifeMs += 60000
		}
	} else if r.Bool(pAge) {
		sp.AgeMs = int64(r.Pick(0, 10, 1000))
	}
	// hop count
	if r.Bool(pHop) {
		sp.HopLimit = r.Pick(0, 1, 2, 5, 32, 254, 255)
		if !sp.local() {
			sp.HopCount = r.Pick(0, 0, 1, sp.HopLimit-1, sp.HopLimit, sp.HopLimit)
			if sp.HopCount < 0 {
				sp.HopCount = 0
			}
			if sp.HopCount > sp.HopLimit {
				sp.HopCount = sp.HopLimit
			}
		}
	}
	// unknown blocks (delivered bundles only: a local application has no reason to add them)
	if !sp.local() && r.Bool(pUnk) {
		flags := uint64(r.Pick(0, 0x01, blockFlagReport, blockFlagDeleteBundle, blockFlagRemoveBlock, blockFlagRemoveBlock|blockFlagReport))
		if focus == "C06" && r.Bool(0.4) {
			flags = uint64(r.Pick(blockFlagRemoveBlock, blockFlagRemoveBlock|blockFlagReport))
		}
		sp.Unknown = append(sp.Unknown, UBlock{Type: uint64(r.Pick(61, 200, 250)), Flags: flags, Len: r.Pick(0, 3, 40)})
		// sometimes several unknown blocks in a row (distinct types; mostly 'remove' / 'keep' mixes)
		ru := simk.NewRand(uint64(r.Intn(1<<30)), "more-unknown")
		pMore := 0.4
		if focus == "C06" {
			pMore = 0.7
		}
		for k, types := 0, []uint64{201, 62, 251}; k < 3 && ru.Bool(pMore); k++ {
			f2 := uint64(ru.Pick(0, blockFlagRemoveBlock, blockFlagRemoveBlock, blockFlagRemoveBlock|blockFlagReport, blockFlagReport, 0x01))
			sp.Unknown = append(sp.Unknown, UBlock{Type: types[k], Flags: f2, Len: ru.Pick(0, 3, 40)})
		}
	}
	sp.CRC = r.Pick(0, 1, 2, 2)
	// status report requests
	if r.Bool(pRep) && sp.Src != "dtn:none" {
		for _, f := range []uint64{fReqReceive, fReqForward, fReqDeliver, fReqDelete} {
			if r.Bool(0.4) {
				sp.Flags |= f
			}
		}
		if r.Bool(0.5) {
			sp.Flags |= fStatusTime
		}
		switch r.Intn(4) {
		case 3:
			sp.ReportTo = "dtn:none"
		case 0:
			sp.ReportTo = fmt.Sprintf("dtn://r%d/rep", r.Range(1, 3))
		case 1:
			if np > 0 {
				sp.ReportTo = fmt.Sprintf("dtn://p%d/rep", r.Range(1, np))
			}
		default:
			sp.ReportTo = simNodeEID + "app2"
		}
	}
	if focus == "C15" && r.Bool(0.08) && sp.Src != "dtn:none" {
		sp.Flags = fAdmin // an administrative record from elsewhere: never reported about
	}
	if algo == "binary_spray" && !sp.local() && r.Bool(0.7) {
		sp.Spray = r.Pick(1, 1, 2, 3, 4, 7, 8)
	}
	if rn := simk.NewRand(uint64(r.Intn(1<<30)), "renumber"); focus == "C06" && !sp.local() && rn.Bool(0.3) {
		sp.Renumber = true
	}
	// C15: "fragments and whole bundles" - a bundle in transit may be a fragment of a larger one (one fragment per
	// bundle ID; never for a destination on this node, where fragments would wait for reassembly)
	if rf := simk.NewRand(uint64(r.Intn(1<<30)), "fragment"); focus == "C15" && !sp.local() && !strings.HasPrefix(sp.Dst, simNodeEID) && sp.Flags&fAdmin == 0 && rf.Bool(0.25) {
		sp.FragOff = rf.Pick(0, 7, 1000)
		sp.FragTot = sp.FragOff + sp.PayLen + rf.Pick(1, 50, 4000)
	}
	return sp
}

// genDtlsrOps: link-state histories with reordering, duplication, staleness and equal timestamps,
// neighbour changes, ticks, and unicast probes (DESIGN.md §4 C20).
func genDtlsrOps(c *simk.Case, r *simk.Rand, ex *nodeExtra, np, nb int, tier string) *simk.Case {
	for i := range ex.Bundles {
		sp := &ex.Bundles[i]
		// probes come from elsewhere, live long, carry nothing special
		sp.Src, sp.CT, sp.AgeMs, sp.HopLimit, sp.Unknown, sp.Flags, sp.ReportTo = fmt.Sprintf("dtn://s%d/app", 1+i%3), "now", -1, -1, nil, 0, ""
		sp.Seq = uint64(i + 1)
		sp.LifeMs = 7200000
		sp.Prev = 0
		if np > 0 && r.Bool(0.5) {
			sp.Prev = r.Range(1, np)
		}
		if sp.Dst == simPeerEID(sp.Prev) {
			sp.Prev = 0
		}
	}
	// template: two or three neighbours that each report a (lost or live) link to the same far node,
	// with loss times and record timestamps drawn independently; then a recompute tick and probes
	if np >= 2 && r.Bool(0.4) {
		far := r.Pick(11, 12, 13)
		k := r.Range(2, np)
		perm := r.Perm(np)[:k]
		for _, p := range perm {
			c.Ops = append(c.Ops, simk.Op{K: "peer_up", P: p + 1})
		}
		c.Ops = append(c.Ops, simk.Op{K: "advance", N: int64(r.Pick(1200, 6000, 30000))})
		el := 1000
		for _, p := range perm {
			lt := 0
			if r.Bool(0.8) {
				lt = r.Range(-300000, el) + 1
				if lt == 0 {
					lt = 1
				}
			}
			c.Ops = append(c.Ops, simk.Op{K: "ls", P: r.Pick(0, p+1), M: int64(p + 1), N: int64(r.Range(-100000, el)), X: []int{far, lt}})
		}
		if r.Bool(0.3) {
			c.Ops = append(c.Ops, simk.Op{K: "ls", P: 0, M: int64(far), N: int64(r.Range(-100000, el)), X: []int{r.Pick(11, 12, 13), 0}})
		}
		c.Ops = append(c.Ops, simk.Op{K: "advance", N: int64(r.Pick(5500, 11000))})
		for i := range ex.Bundles {
			if i < 4 {
				ex.Bundles[i].Dst = lsNode(far)
				ex.Bundles[i].Prev = 0
				c.Ops = append(c.Ops, simk.Op{K: "deliver", B: i})
				if r.Bool(0.5) {
					c.Ops = append(c.Ops, simk.Op{K: "advance", N: int64(r.Pick(1100, 5200, 20000))})
				}
			}
		}
		c.Cfg["extra"] = *ex
		return c
	}
	// template: a neighbour that is lost and comes back before the purge; destinations behind it are probed
	// right after its return (it must count as live again: cost 0) and again after the purge interval
	// (it must still be a neighbour); a second neighbour offers a competing path over a lost link
	if np >= 1 && r.Bool(0.25) {
		far := r.Pick(11, 12, 13)
		c.Cfg["purge"] = r.PickS("60s", "10m")
		p := r.Range(1, np)
		c.Ops = append(c.Ops, simk.Op{K: "peer_up", P: p})
		q := 0
		if np >= 2 {
			q = p%np + 1
			c.Ops = append(c.Ops, simk.Op{K: "peer_up", P: q})
		}
		c.Ops = append(c.Ops, simk.Op{K: "advance", N: 1200},
			simk.Op{K: "ls", P: p, M: int64(p), N: 500, X: []int{far, 0}}) // p -> far: live
		if q != 0 {
			c.Ops = append(c.Ops, simk.Op{K: "advance", N: int64(r.Pick(3000, 9000))})
		}
		c.Ops = append(c.Ops, simk.Op{K: "peer_down", P: p}, simk.Op{K: "advance", N: int64(r.Pick(2500, 6000, 14000))})
		if q != 0 {
			// q -> far: lost, but later than p was lost (a cheaper lost link than p's stale loss time)
			c.Ops = append(c.Ops, simk.Op{K: "ls", P: q, M: int64(q), N: int64(r.Pick(20000, 25000)), X: []int{far, int(r.Pick(19000, 24000)) + 1}})
		}
		c.Ops = append(c.Ops, simk.Op{K: "peer_up", P: p}, simk.Op{K: "advance", N: int64(r.Pick(11000, 21000))}) // the manager restarts the adapter on a retry tick
		for i := range ex.Bundles {
			if i < 2 {
				ex.Bundles[i].Dst, ex.Bundles[i].Prev = lsNode(far), 0
				c.Ops = append(c.Ops, simk.Op{K: "deliver", B: i}, simk.Op{K: "advance", N: 5200})
			}
		}
		c.Ops = append(c.Ops, simk.Op{K: "advance", N: int64(r.Pick(65000, 130000))})
		for i := range ex.Bundles {
			if i >= 2 && i < 4 {
				ex.Bundles[i].Dst, ex.Bundles[i].Prev = lsNode(far), 0
				c.Ops = append(c.Ops, simk.Op{K: "deliver", B: i}, simk.Op{K: "advance", N: 5200})
			}
		}
		c.Cfg["extra"] = *ex
		return c
	}
	n := r.Range(8, 40)
	if tier == "thorough" && r.Bool(0.3) {
		n = r.Range(40, 120)
	}
	elapsed := int64(0)
	probe := 0
	origins := []int{1, 2, 3, 4, 5, 11, 12, 13}
	var tsPool []int64
	for len(c.Ops) < n {
		switch x := r.Intn(100); {
		case x < 14:
			c.Ops = append(c.Ops, simk.Op{K: "peer_up", P: r.Range(1, np)})
		case x < 20:
			c.Ops = append(c.Ops, simk.Op{K: "peer_down", P: r.Range(1, np)})
		case x < 50:
			o := origins[r.Intn(len(origins))]
			var xs []int
			for k := r.Range(0, 4); k > 0; k-- {
				nbr := r.Pick(0, 1, 2, 3, 4, 5, 11, 12, 13)
				lt := 0
				if r.Bool(0.4) {
					lt = int(r.Range(-200000, int(elapsed))) + 1
					if lt == 0 {
						lt = 1
					}
				}
				xs = append(xs, nbr, lt)
			}
			ts := int64(r.Range(-100000, int(elapsed)))
			if len(tsPool) > 0 && r.Bool(0.3) {
				ts = tsPool[r.Intn(len(tsPool))] // equal / older timestamps: stale and duplicate data
			}
			tsPool = append(tsPool, ts)
			c.Ops = append(c.Ops, simk.Op{K: "ls", P: r.Range(0, np), M: int64(o), N: ts, X: xs})
		case x < 75:
			ms := int64(r.Pick(300, 1100, 2100, 5200, 11000, 25000, 65000))
			elapsed += ms
			c.Ops = append(c.Ops, simk.Op{K: "advance", N: ms})
		default:
			if probe < nb {
				c.Ops = append(c.Ops, simk.Op{K: "deliver", B: probe, P: ex.Bundles[probe].Prev})
				probe++
			}
		}
	}
	c.Cfg["extra"] = *ex
	return c
}
