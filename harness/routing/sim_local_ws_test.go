package routing

// C07, WebSocket clients: the real agent.WebSocketAgent (upgrade handler, per-client goroutines, its
// inner MuxAgent) and the real agent.WebSocketAgentConnector as the client, joined by net.Pipe
// inside the bubble: the connector's dialer gets a pipe end, the other end is served by the
// agent's ServeHTTP through a minimal hijackable ResponseWriter (no sockets, no http.Server).

import (
	"bufio"
	"bytes"
	"net"
	"net/http"
	"sort"
	"sync"

	"github.com/gorilla/websocket"

	"github.com/dtn7/dtn7-go/pkg/agent"
	"github.com/dtn7/dtn7-go/pkg/bpv7"
)

type wsClient struct {
	idx    int
	eid    string
	conn   *agent.WebSocketAgentConnector
	reg    bool
	mu     sync.Mutex
	recv   []bpv7.Bundle
	expect map[string]int
}

func (w *wsClient) received() []bpv7.Bundle {
	w.mu.Lock()
	defer w.mu.Unlock()
	return append([]bpv7.Bundle(nil), w.recv...)
}

type hijackRW struct {
	conn net.Conn
	brw  *bufio.ReadWriter
	hdr  http.Header
}

func (h *hijackRW) Header() http.Header         { return h.hdr }
func (h *hijackRW) Write(b []byte) (int, error) { return h.conn.Write(b) }
func (h *hijackRW) WriteHeader(int)             {}
func (h *hijackRW) Hijack() (net.Conn, *bufio.ReadWriter, error) {
	return h.conn, h.brw, nil
}

// wsInstall routes the connector's dialer to the agent's upgrade handler.
func (l *localSim) wsInstall() func() {
	old := websocket.DefaultDialer.NetDial
	websocket.DefaultDialer.NetDial = func(network, addr string) (net.Conn, error) {
		cli, srv := net.Pipe()
		go func() {
			br := bufio.NewReader(srv)
			req, err := http.ReadRequest(br)
			if err != nil {
				_ = srv.Close()
				return
			}
			rw := &hijackRW{conn: srv, brw: bufio.NewReadWriter(br, bufio.NewWriter(srv)), hdr: http.Header{}}
			l.ws.ServeHTTP(rw, req) // returns when the client is gone
		}()
		return cli, nil
	}
	return func() { websocket.DefaultDialer.NetDial = old }
}

func (l *localSim) wsReg(i int) {
	n := l.nodeSim
	if i < 0 || i >= len(l.wsClients) || l.wsClients[i].reg {
		return
	}
	wc := l.wsClients[i]
	n.inject("ws_reg", func() {
		conn, err := agent.NewWebSocketAgentConnector("ws://sim/ws", wc.eid)
		if err != nil {
			return
		}
		wc.conn = conn
		go func() {
			for {
				b, err := conn.ReadBundle()
				if err != nil {
					return
				}
				wc.mu.Lock()
				wc.recv = append(wc.recv, b)
				wc.mu.Unlock()
			}
		}()
	})
	if wc.conn == nil {
		n.res.Violate("C07", "ws-registration", "ws-client-could-not-register", "WebSocket client %d could not register %s", i, wc.eid)
		return
	}
	wc.reg = true
	n.res.Probe("ws_client_registered")
}

func (l *localSim) wsUnreg(i int) {
	n := l.nodeSim
	if i < 0 || i >= len(l.wsClients) || !l.wsClients[i].reg {
		return
	}
	wc := l.wsClients[i]
	conn := wc.conn
	n.inject("ws_unreg", func() { conn.Close() })
	wc.reg, wc.conn = false, nil
}

// wsJudge: every bundle delivered while the client was connected, exactly once, unchanged; nothing else.
func (l *localSim) wsJudge() {
	n := l.nodeSim
	for _, wc := range l.wsClients {
		got := map[string]int{}
		for _, b := range wc.received() {
			pl := payloadOf(&b)
			j := bytes.IndexByte(pl, '|')
			if j <= 0 {
				n.res.Violate("C07", "nobody-else", "ws-client-got-foreign-bundle", "WebSocket client %d (%s) received a bundle without a workload tag (payload %q)", wc.idx, wc.eid, pl)
				continue
			}
			tag := string(pl[:j])
			got[tag]++
			if lb := l.lbs[tag]; lb != nil {
				if w, _ := encodeBundle(&b); !bytes.Equal(w, lb.wire) {
					orig, err := bpv7.ParseBundle(bytesReader(lb.wire))
					if err == nil && (!bytes.Equal(payloadOf(&orig), pl) || orig.PrimaryBlock.Destination != b.PrimaryBlock.Destination || orig.PrimaryBlock.SourceNode != b.PrimaryBlock.SourceNode) {
						n.res.Violate("C07", "unchanged", "delivered-bundle-changed", "WebSocket client %d got %s with different content", wc.idx, tag)
					}
				}
			}
		}
		var tags []string
		for t := range wc.expect {
			tags = append(tags, t)
		}
		for t := range got {
			if _, ok := wc.expect[t]; !ok {
				tags = append(tags, t)
			}
		}
		sort.Strings(tags)
		for _, t := range tags {
			want, g := wc.expect[t], got[t]
			switch {
			case g < want:
				n.res.Violate("C07", "exactly-the-recipients", "ws-client-missed-bundle", "WebSocket client %d (%s): bundle %s was delivered while it was connected but it received it %d times (expected %d)", wc.idx, wc.eid, t, g, want)
			case g > want && want > 0:
				n.res.Violate("C07", "exactly-the-recipients", "ws-client-got-bundle-twice", "WebSocket client %d (%s): bundle %s received %d times, expected %d", wc.idx, wc.eid, t, g, want)
			case g > 0 && want == 0:
				n.res.Violate("C07", "nobody-else", "ws-client-got-foreign-bundle", "WebSocket client %d (%s) received bundle %s addressed to %s", wc.idx, wc.eid, t, l.dstOf(t))
			}
			if g > 0 {
				n.res.Probe("ws_client_received")
			}
		}
	}
}
