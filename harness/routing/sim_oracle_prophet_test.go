package routing

// C19: PRoPHET predictabilities stay probabilities and gate forwarding (DESIGN.md §4 C19, App. A.5).
// The node's vector is observed in the ProphetBlock of the metadata bundles it hands to scripted
// peers on every encounter; peers' vectors are what the script delivered.

import (
	"os"
	"fmt"
	"math"
	"sort"
	"strconv"
	"time"

	"github.com/dtn7/dtn7-go/pkg/bpv7"
	"github.com/dtn7/dtn7-go/pkg/cla"
)

type prophetState struct {
	ref        map[string]float64            // reference vector, resynchronised at every emission
	adv        map[int]map[string]float64    // last vector each peer addressed to this node
	lastEmit   map[string]float64            // previous emission
	haveEmit   bool
	lastKey    [2]uint64
	events     []prophetEvent                // encounters / imports / ageing ticks with the instant they happened
	lastCreated time.Time
	bornAt     time.Time                     // start of the incarnation this state describes
	ambigAge   int                           // ageing ticks that may or may not be contained in the last emission
	pInit, beta, gamma float64
}

type prophetEvent struct {
	at  time.Time
	age bool
	key string
}

func (n *nodeSim) prophet() *prophetState {
	if n.pst == nil {
		n.pst = &prophetState{ref: map[string]float64{}, adv: map[int]map[string]float64{}, bornAt: n.pstBorn,
			pInit: n.c.CfgF("p_init", 0.75), beta: n.c.CfgF("beta", 0.25), gamma: n.c.CfgF("gamma", 0.98)}
	}
	return n.pst
}

// prophetValue decodes the value codes used in scripts (exact floats matter).
func prophetValue(code int) float64 {
	switch code {
	case 0:
		return 0
	case 1:
		return 1
	case 2:
		return math.SmallestNonzeroFloat64
	case 3:
		return 0.5
	case 4:
		return math.Nextafter(1, 0)
	case 5:
		return 1e-300
	default:
		return float64(code%1000) / 1000
	}
}

func prophetDest(i int) string {
	if i < 0 {
		return fmt.Sprintf("dtn://p%d/", -i)
	}
	return fmt.Sprintf("dtn://r%d/", i)
}

// opVec: peer P delivers its summary vector (X = pairs of destination index, value code; M != 0: the
// bundle is addressed to some other node and must not be imported).

func (n *nodeSim) execVec(p int, x []int, notForUs bool) {
	if n.core == nil || p < 1 || p >= len(n.peers) || n.algo != "prophet" {
		return
	}
	m := map[bpv7.EndpointID]float64{}
	plain := map[string]float64{}
	for i := 0; i+1 < len(x); i += 2 {
		d := prophetDest(x[i])
		if d == simPeerEID(p) {
			continue // a peer does not advertise a predictability for itself
		}
		v := prophetValue(x[i+1])
		m[bpv7.MustNewEndpointID(d)] = v
		plain[d] = v
	}
	dst := simNodeEID
	if notForUs {
		dst = "dtn://r9/"
	}
	b, err := bpv7.Builder().CRC(bpv7.CRC32).Source(simPeerEID(p)).Destination(dst).CreationTimestampNow().Lifetime("1m").
		BundleCtrlFlags(bpv7.MustNotFragmented).Canonical(bpv7.NewProphetBlock(m)).PayloadBlock(byte(1)).Build()
	if err != nil {
		n.lg.Add("vector bundle build failed: %v", err)
		return
	}
	n.vecSeq++
	b.PrimaryBlock.CreationTimestamp[1] = uint64(1000 + n.vecSeq)
	wire, err := encodeBundle(&b)
	if err != nil {
		return
	}
	pb, err := bpv7.ParseBundle(bytesReader(wire))
	if err != nil {
		n.lg.Add("vector bundle does not parse: %v", err)
		return
	}
	st := n.prophet()
	if !notForUs {
		// import: the peer's vector replaces the older one; the transitive update may raise every key in it
		st.adv[p] = plain
		pp := st.ref[simPeerEID(p)]
		keys := make([]string, 0, len(plain))
		for k := range plain {
			keys = append(keys, k)
		}
		sort.Strings(keys)
		for _, k := range keys {
			old := st.ref[k]
			st.ref[k] = old + (1-old)*pp*plain[k]*st.beta
			st.events = append(st.events, prophetEvent{at: time.Now(), key: k})
		}
		n.res.Probe("prophet_vector_imported")
	} else {
		n.res.Probe("prophet_vector_not_for_us")
	}
	recv := n.recv
	n.inject("vec:p"+strconv.Itoa(p), func() {
		select {
		case recv.ch <- cla.NewConvergenceReceivedBundle(recv, recv.eid, &pb):
		case <-recv.closed:
		}
	})
}

func (n *nodeSim) prophetOnPeerUp(ps *peerState) {
	if n.algo != "prophet" {
		return
	}
	st := n.prophet()
	k := ps.eid.String()
	old := st.ref[k]
	st.ref[k] = old + (1-old)*st.pInit
	st.events = append(st.events, prophetEvent{at: time.Now(), key: k})
}

func (n *nodeSim) prophetOnAgeTick() {
	st := n.prophet()
	for k, v := range st.ref {
		st.ref[k] = v * st.gamma
	}
	st.events = append(st.events, prophetEvent{at: time.Now(), age: true})
	n.res.Probe("prophet_ageing_tick")
}

func (n *nodeSim) prophetOnRestart() {
	n.pst = nil
	n.pstBorn = time.Now()
}

// prophetEmission: a metadata bundle of this node reached a scripted peer.
func (n *nodeSim) prophetEmission(rec *sendRec) {
	cb, err := rec.bundle.ExtensionBlock(bpv7.ExtBlockTypeProphetBlock)
	if err != nil || !rec.bundle.PrimaryBlock.SourceNode.SameNode(bpv7.MustNewEndpointID(simNodeEID)) {
		return
	}
	if n.emitted == nil {
		n.emitted = map[string]bool{}
	}
	if n.emitted[rec.idStr] {
		return // the same metadata bundle again (retry)
	}
	n.emitted[rec.idStr] = true
	st := n.prophet()
	// a metadata bundle that could not be sent at once may reach a peer after a younger one:
	// emissions are judged in the order in which the node created them
	ct := rec.bundle.PrimaryBlock.CreationTimestamp
	key := [2]uint64{uint64(ct.DtnTime()), ct.SequenceNumber()}
	if st.haveEmit && (key[0] < st.lastKey[0] || (key[0] == st.lastKey[0] && key[1] < st.lastKey[1])) {
		n.res.Probe("prophet_stale_emission_skipped")
		return
	}
	// a metadata bundle created by an earlier incarnation (waiting in the store, sent after the restart)
	// describes the vector that the restart discarded: not comparable with this incarnation's emissions
	if !st.bornAt.IsZero() && ct.DtnTime().Time().Before(st.bornAt.Add(-time.Millisecond)) {
		n.res.Probe("prophet_emission_of_earlier_incarnation_skipped")
		return
	}
	st.lastKey = key
	vec := map[string]float64{}
	for e, v := range cb.Value.(*bpv7.ProphetBlock).GetPredictabilities() {
		vec[e.String()] = v
	}
	n.res.Probe("prophet_emission_judged")
	keys := make([]string, 0, len(vec))
	for k := range vec {
		keys = append(keys, k)
	}
	sort.Strings(keys)
	for _, k := range keys {
		v := vec[k]
		if math.IsNaN(v) || v < 0 || v > 1 {
			n.res.Violate("C19", "range", "predictability-outside-unit-interval", "the node advertises P(%s)=%v (constants p_init=%v beta=%v gamma=%v)", k, v, st.pInit, st.beta, st.gamma)
		}
	}
	// what happened between the creation of the previous emission and the creation of this one
	// (millisecond resolution of the creation time: one millisecond of slack on both sides)
	created := ct.DtnTime().Time()
	if st.haveEmit {
		lo, hi := st.lastCreated.Add(-time.Millisecond), created.Add(2*time.Millisecond)
		aged := false
		raised := map[string]bool{}
		for _, ev := range st.events {
			if ev.at.Before(lo) || ev.at.After(hi) {
				continue
			}
			if ev.age {
				aged = true
			} else {
				raised[ev.key] = true
			}
		}
		old := make([]string, 0, len(st.lastEmit))
		for k := range st.lastEmit {
			old = append(old, k)
		}
		sort.Strings(old)
		for _, k := range old {
			was, now := st.lastEmit[k], vec[k]
			if !aged && now < was {
				n.res.Violate("C19", "monotone", "predictability-lowered-without-ageing", "P(%s) went from %v to %v although only encounters and vector imports happened in between", k, was, now)
			}
			if aged && !raised[k] && now > was {
				n.res.Violate("C19", "monotone", "predictability-raised-by-ageing", "P(%s) went from %v to %v although only ageing happened to it in between", k, was, now)
			}
		}
	}
	st.lastEmit, st.haveEmit, st.lastCreated = vec, true, created
	// resynchronise the reference with what the node says it holds
	st.ref = map[string]float64{}
	for k, v := range vec {
		st.ref[k] = v
	}
	// the vector was taken when the bundle was created; the harness sees it when it is handed to a peer. An
	// ageing tick of that very instant may lie in between (already applied by the node, not contained in the
	// vector): the forwarding gate is judged against both readings
	st.ambigAge = 0
	for _, ev := range st.events {
		if ev.age && !ev.at.Before(created.Add(-time.Millisecond)) {
			st.ambigAge++
		}
	}
}

// prophetChoice: an algorithm-chosen transmission of a data bundle under PRoPHET.
func (n *nodeSim) prophetChoice(tr *btrack, rec *sendRec) {
	st := n.prophet()
	dest := tr.bundle.PrimaryBlock.Destination.String()
	adv, known := st.adv[rec.peer][dest]
	own := st.ref[dest]
	n.res.Probe("prophet_forwarding_judged")
	if st.ambigAge > 0 {
		own *= math.Pow(st.gamma, float64(st.ambigAge))
		n.res.Probe("prophet_gate_judged_with_ambiguous_ageing")
	}
	eps := 1e-12 + 1e-9*math.Abs(own)
	if !known || !(adv > own-eps) {
		sig := "forwarded-to-peer-without-higher-predictability"
		if !known {
			sig += "/peer-advertised-nothing"
		}
		if os.Getenv("VERIF_LABELS") != "" {
			if pr, ok := n.core.routing.(*Prophet); ok {
				pr.dataMutex.RLock()
				fmt.Fprintf(os.Stderr, "DEBUG real own=%v real peer=%v harness adv=%v\n", pr.predictabilities, pr.peerPredictabilities, st.adv[rec.peer])
				pr.dataMutex.RUnlock()
			}
		}
		n.res.Violate("C19", "gate", sig, "%s (destination %s) was offered to p%d whose advertised predictability is %v (known=%v); the node's own is %v", rec.tag, dest, rec.peer, adv, known, own)
	}
}

var _ = time.Now
