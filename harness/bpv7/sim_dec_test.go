package bpv7

// C04 (message decoders of package bpv7 that are not reached through a byte stream):
//   eid    endpoint-ID strings (NewEndpointID), as they arrive in REST / WebSocket registrations
//   admin  administrative records (status reports) carried in a bundle's payload
//   block  the block-type specific data of every known extension block (hop count, bundle age,
//          previous node, binary spray, DTLSR, PRoPHET, signature) inside a canonical block
//   bundle a whole bundle carrying an administrative record, decoded from one buffer
// A well-formed message from a simulated peer or client is truncated at every offset and every
// length/count position is set to each boundary value (simk.DatagramFaults / TextFaults). The
// decoder must return a value or an error: no panic, no endless loop, no allocation in proportion
// to a declared count whose elements never arrived (DESIGN.md §8.3).

import (
	"bytes"
	"crypto/ed25519"
	"fmt"
	"os"
	"testing"
	"time"

	"github.com/dtn7/cboring"

	"verif.local/simk"
)

func decEID(r *simk.Rand) EndpointID {
	if r.Bool(0.35) {
		return MustNewEndpointID(fmt.Sprintf("ipn:%d.%d", r.Range(1, 70000), r.Range(1, 70000)))
	}
	if r.Bool(0.1) {
		return DtnNone()
	}
	return MustNewEndpointID(fmt.Sprintf("dtn://n%d/%s", r.Intn(1000), r.PickS("", "svc", "a/b", "~grp")))
}

func decBundle(r *simk.Rand) Bundle {
	bld := Builder().CRC(CRCType(r.Intn(3))).Source(decEID(r)).Destination(decEID(r)).CreationTimestampTime(time.Unix(1700000000+int64(r.Intn(1<<20)), 0)).Lifetime("10m")
	if r.Bool(0.5) {
		bld = bld.HopCountBlock(r.Range(1, 255))
	}
	if r.Bool(0.5) {
		bld = bld.BundleAgeBlock(r.Range(0, 100000))
	}
	bld = bld.PayloadBlock([]byte("payload"))
	b, err := bld.Build()
	if err != nil {
		// a dtn:none source needs flags the builder does not set: fall back
		b, _ = Builder().CRC(CRC32).Source("dtn://src/").Destination("dtn://dst/").CreationTimestampTime(time.Unix(1700000000, 0)).Lifetime("10m").PayloadBlock([]byte("payload")).Build()
	}
	return b
}

// blockBytes assembles a canonical block (no CRC) around the given block-type specific data.
func blockBytes(typ uint64, data []byte) []byte {
	var b []byte
	b = append(b, simk.CborHead(4, 5)...)
	b = append(b, simk.CborHead(0, typ)...)
	b = append(b, simk.CborHead(0, 2)...)
	b = append(b, simk.CborHead(0, 0)...)
	b = append(b, simk.CborHead(0, 0)...)
	b = append(b, simk.CborHead(2, uint64(len(data)))...)
	return append(b, data...)
}

func registerRoutingBlocks() {
	ebm := GetExtensionBlockManager()
	for _, eb := range []ExtensionBlock{NewBinarySprayBlock(0), NewDTLSRBlock(DTLSRPeerData{}), NewProphetBlock(nil), &SignatureBlock{}} {
		if !ebm.IsKnown(eb.BlockTypeCode()) {
			_ = ebm.Register(eb)
		}
	}
}

func runDecCase(c *simk.Case) *simk.Result {
	res := &simk.Result{}
	lg := &simk.Log{}
	r := simk.NewRand(c.Seed, "data")
	registerRoutingBlocks()
	kind := c.CfgS("kind", "admin")
	fed := 0
	switch kind {
	case "eid":
		uri := decEID(r).String()
		if _, err := NewEndpointID(uri); err != nil {
			res.Violate("C04", "clean", "clean-eid-not-decoded", "%s: %v", uri, err)
		}
		faults := simk.TextFaults(uri)
		// and the two-element / one-element ipn and dtn shapes with hostile numbers
		for _, extra := range []string{"ipn:", "ipn:1", "ipn:.", "ipn:1.", "dtn:", "dtn:/", "dtn://", "dtn:///", "dtn:none/", ":", "", "x:y", "ipn:1.2.3", "ipn:0.0", "dtn://" + string(bytes.Repeat([]byte("a"), 65536)) + "/"} {
			faults = append(faults, simk.DatagramFault{What: fmt.Sprintf("string %.20q (%d bytes)", extra, len(extra)), Data: []byte(extra)})
		}
		fed = simk.JudgeDecoder(res, "endpoint-id", faults, func(d []byte) {
			if e, err := NewEndpointID(string(d)); err == nil {
				_ = e.String()
				_ = e.CheckValid()
				var buf bytes.Buffer
				_ = cboring.Marshal(&e, &buf)
			}
		})
		lg.Add("eid %s faults=%d", uri, len(faults))
	case "admin":
		b := decBundle(r)
		if r.Bool(0.5) {
			b.PrimaryBlock.BundleControlFlags |= RequestStatusTime
		}
		if r.Bool(0.3) {
			b.PrimaryBlock.BundleControlFlags |= IsFragment
			b.PrimaryBlock.FragmentOffset, b.PrimaryBlock.TotalDataLength = uint64(r.Intn(1000)), uint64(r.Range(1000, 5000))
		}
		sr := NewStatusReport(b, StatusInformationPos(r.Intn(4)), StatusReportReason(r.Intn(10)), DtnTime(754000000000+uint64(r.Intn(1<<20))))
		var buf bytes.Buffer
		if err := GetAdministrativeRecordManager().WriteAdministrativeRecord(sr, &buf); err != nil {
			res.HarnessErr = err.Error()
			return res
		}
		valid := buf.Bytes()
		if ar, err := NewAdministrativeRecordFromCbor(valid); err != nil || ar == nil {
			res.Violate("C04", "clean", "clean-status-report-not-decoded", "%v", err)
		}
		faults := simk.DatagramFaults(valid)
		fed = simk.JudgeDecoder(res, "administrative-record", faults, func(d []byte) {
			if ar, err := NewAdministrativeRecordFromCbor(d); err == nil && ar != nil {
				_ = fmt.Sprint(ar)
			}
		})
		lg.Add("admin record=%d faults=%d", len(valid), len(faults))
	case "block":
		peers := map[EndpointID]DtnTime{}
		preds := map[EndpointID]float64{}
		for k := r.Range(0, 3); k > 0; k-- {
			peers[decEID(r)] = DtnTime(r.Intn(1 << 30))
			preds[decEID(r)] = r.Float()
		}
		_, priv, _ := ed25519.GenerateKey(bytes.NewReader(bytes.Repeat([]byte{byte(r.Intn(256))}, 64)))
		sig, sigErr := NewSignatureBlock(decBundle(r), priv)
		blocks := []ExtensionBlock{NewHopCountBlock(uint8(r.Intn(256))), NewBundleAgeBlock(uint64(r.Intn(1 << 20))), NewPreviousNodeBlock(decEID(r)),
			NewBinarySprayBlock(uint64(r.Intn(100))), NewDTLSRBlock(DTLSRPeerData{ID: decEID(r), Timestamp: DtnTime(r.Intn(1 << 30)), Peers: peers}),
			NewProphetBlock(preds), NewPayloadBlock([]byte("some payload bytes"))}
		if sigErr == nil {
			blocks = append(blocks, sig)
		}
		eb := blocks[c.CfgInt("block", 0)%len(blocks)]
		var buf bytes.Buffer
		if err := GetExtensionBlockManager().WriteBlock(eb, &buf); err != nil {
			res.HarnessErr = err.Error()
			return res
		}
		// buf = byte string header + data: strip the header
		hl := len(simk.CborHead(2, 0))
		for _, h := range simk.CborHeaders(buf.Bytes()) {
			if h.Pos == 0 {
				hl = h.Len
			}
		}
		data := buf.Bytes()[hl:]
		valid := blockBytes(eb.BlockTypeCode(), data)
		var cb CanonicalBlock
		if err := cboring.Unmarshal(&cb, bytes.NewReader(valid)); err != nil {
			res.Violate("C04", "clean", "clean-block-not-decoded", "%s: %v", eb.BlockTypeName(), err)
		}
		// faults inside the block data (re-wrapped with a fitting length) and on the block itself
		var faults []simk.DatagramFault
		for _, f := range simk.DatagramFaults(data) {
			faults = append(faults, simk.DatagramFault{What: "block data: " + f.What, Data: blockBytes(eb.BlockTypeCode(), f.Data)})
		}
		faults = append(faults, simk.DatagramFaults(valid)...)
		fed = simk.JudgeDecoder(res, "extension-block", faults, func(d []byte) {
			var cb CanonicalBlock
			if err := cboring.Unmarshal(&cb, bytes.NewReader(d)); err == nil {
				_ = cb.CheckValid()
				_ = fmt.Sprint(cb.Value)
			}
		})
		lg.Add("block %s data=%d faults=%d", eb.BlockTypeName(), len(data), len(faults))
	case "bundle":
		ref := decBundle(r)
		sr := NewStatusReport(ref, StatusInformationPos(r.Intn(4)), StatusReportReason(r.Intn(10)), DtnTime(754000000000+uint64(r.Intn(1<<20))))
		blk, err := AdministrativeRecordToCbor(sr)
		if err != nil {
			res.HarnessErr = err.Error()
			return res
		}
		pb := NewPrimaryBlock(AdministrativeRecordPayload, MustNewEndpointID("dtn://dst/"), MustNewEndpointID("dtn://src/"), NewCreationTimestamp(DtnTime(754000000000), 0), 1<<40)
		b, err := NewBundle(pb, []CanonicalBlock{blk})
		if err != nil {
			res.HarnessErr = err.Error()
			return res
		}
		b.SetCRCType(CRCType(r.Intn(3)))
		var buf bytes.Buffer
		if err := b.WriteBundle(&buf); err != nil {
			res.HarnessErr = err.Error()
			return res
		}
		valid := buf.Bytes()
		if _, err := ParseBundle(bytes.NewReader(valid)); err != nil {
			res.Violate("C04", "clean", "clean-bundle-not-decoded", "%v", err)
		}
		faults := simk.DatagramFaults(valid)
		fed = simk.JudgeDecoder(res, "bundle", faults, func(d []byte) {
			if b, err := ParseBundle(bytes.NewReader(d)); err == nil {
				_ = b.ID().String()
				if b.IsAdministrativeRecord() {
					if p, err := b.PayloadBlock(); err == nil {
						_, _ = NewAdministrativeRecordFromCbor(p.Value.(*PayloadBlock).Data())
					}
				}
			}
		})
		lg.Add("bundle=%d faults=%d", len(valid), len(faults))
	}
	res.Fault("datagram_cut")
	res.Fault("field_corrupt")
	res.Probe("kind_" + kind)
	res.LogHash, res.Log, res.Steps, res.Nontrivial = lg.Hash(), lg.Lines, fed, true
	return res
}

func genDecCase(seed uint64, tier, focus, variant string) *simk.Case {
	r := simk.NewRand(seed, "script")
	return &simk.Case{Harness: "dec-bpv7", Seed: seed, Cfg: map[string]interface{}{
		"kind": r.PickS("eid", "admin", "admin", "block", "block", "block", "bundle"), "block": r.Intn(64)}}
}

func TestSimWorker(t *testing.T) {
	if os.Getenv("VERIF_HARNESS") == "" {
		t.Skip("simulation worker: set VERIF_HARNESS")
	}
	os.Exit(simk.WorkerMain([]*simk.Harness{{Name: "dec-bpv7", Gen: genDecCase, Run: runDecCase}}))
}
